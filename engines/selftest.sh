#!/bin/bash
# ./check selftest [seed-name...]
# Replays every kept seeded change (seeded/<id>/patch.diff) against a scratch worktree of /repo's HEAD and compares the set of
# checks that fire with meta.json's expected_to_fire.  Also replays a set of benign edits that must stay silent.
# Development / regression aid for the checker itself; not a registered command.
HERE="$(cd "$(dirname "$0")" && pwd)"
cd "$HERE/.."
names="$*"
[ -z "$names" ] && names=$(ls seeded)
miss=0
for n in $names; do
  [ -f "seeded/$n/patch.diff" ] || continue
  exp=$(python3 -c "import json;print(' '.join(json.load(open('seeded/$n/meta.json'))['expected_to_fire']))")
  got=$(engines/seedchecks.sh "$PWD/seeded/$n/patch.diff" 2>/dev/null | grep '^FIRED:' | sed 's/FIRED: *//')
  status=ok
  for e in $exp; do case " $got " in *" $e "*) ;; *) status="MISSING:$e"; miss=1;; esac; done
  echo "$n expected=[$exp] fired=[$got] $status"
done
exit $miss
