"""model: operators, handler roles (by flow), receiver classes, cells, arm summaries."""
import re
from cbcore import *

class Cell:
    def __init__(self, key, alloc_expr):
        self.key = key            # (alloc_site, selector)
        self.alloc = alloc_expr   # the base allocation expression
        self.stores = []          # (Effect, handler body id, arm)
        self.loads = []
        self.name = None
        self.scope = None         # FACTORY / APPLICATION / SUBSCRIPTION / DELIVERY
        self.kind = None

def strip_cell(e):
    """Split a cell expression into (base allocation expr, selector)."""
    sel = None
    while True:
        if e[0] == "index":
            sel = ("idx", e[2]); e = e[1]; continue
        if e[0] == "field" and isinstance(e[2], int):
            sel = ("field", e[2]); e = e[1]; continue
        if e[0] == "someof":
            e = e[1]; continue
        if e[0] == "call" and e[2] == "std::iter::Iterator::next" and e[3]:
            sel = ("idx", ("iterelem", e[1])); e = e[3][0]; continue
        break
    return e, sel

def cell_key(e):
    base, sel = strip_cell(e)
    if base[0] == "call":
        k = (base[1], base[2])
    elif base[0] in ("param", "upvar", "saved"):
        k = base
    else:
        k = ("expr", base)
    return (k, sel)

def base_key(e):
    return cell_key(e)[0]


class Operator:
    def __init__(self, model, root_fn):
        self.model = model
        self.id = root_fn                 # body id of the top-level fn
        self.name = short_body(root_fn)
        self.bodies = []                  # all bodies nested in it
        self.roles = {}                   # body id -> role string
        self.root = None                  # ROOT handler body id (None for for_each)
        self.handlers = []
        self.sends = []                   # (Effect, body id)
        self.cells = {}

    def role(self, bid):
        return self.roles.get(bid, "?")


def _mentions_closure(e, cid, chain=False):
    """Does the expression use closure `cid` as a value?  Being captured by another closure is not a use: what that closure
    does with the capture shows up in its own effects."""
    stack = [e]
    n = 0
    while stack:
        x = stack.pop()
        n += 1
        if n > 100000:
            return True
        if not isinstance(x, tuple) or not x:
            continue
        if isinstance(x[0], str):
            if x[0] == "agg" and len(x) > 3 and x[1] in ("closure", "coroutine"):
                if x[2] == cid:
                    return True
                continue
            if chain and x[0] == "call" and x[2] in ("std::iter::Iterator::filter", "std::iter::Iterator::filter_map", "std::iter::Iterator::map") and len(x[3]) == 2:
                stack.append(x[3][0])       # the closure argument of the adaptor the chain model has absorbed is not a use
                continue
            stack.extend(y for y in x[1:] if isinstance(y, tuple))
        else:
            stack.extend(y for y in x if isinstance(y, tuple))
    return False


class Model:
    def __init__(self, prog):
        self.prog = prog
        self.ops = {}
        self.body_op = {}
        self._recv_cache = {}
        self._csv_cache = {}
        self._roles_done = False
        self._group()
        for op in self.ops.values():
            self._roles(op)
        self._roles_done = True
        self._cells()

    # ---------------- grouping
    def _group(self):
        P = self.prog
        for b in P.bodies.values():
            if b.tracing_prov:
                continue
            anc = P.ancestors(b.id)
            top = anc[-1] if anc else b.id
            self.body_op[b.id] = top
        for bid, top in self.body_op.items():
            op = self.ops.get(top)
            if op is None:
                op = self.ops[top] = Operator(self, top)
            op.bodies.append(bid)
        for op in self.ops.values():
            for bid in op.bodies:
                body_effects(P, P.bodies[bid])
        # a local closure with arguments that was inlined at every direct call and is mentioned by no remaining effect (not sent,
        # stored, or passed on) has no other caller: its own body is not an arm of anything
        for cid in sorted(P.inlined_closures | P.chain_closures):
            own = {cid} | {b for b in P.bodies if cid in P.ancestors(b)}
            escaped = False
            for op in self.ops.values():
                for bid in op.bodies:
                    if bid in own:
                        continue
                    for e in self.all_effects(bid):
                        ischain = cid in P.chain_closures
                        if ischain and e.kind == "hocall" and e.get("callee") in ("std::iter::Iterator::filter", "std::iter::Iterator::filter_map", "std::iter::Iterator::map") \
                                and e.args and not _mentions_closure(e.args[0], cid, True):
                            continue        # the adaptor call that the chain model has absorbed
                        for val in e.d.values():
                            vals = val if isinstance(val, (list, tuple)) and val and not isinstance(val[0], str) else [val]
                            for x0 in vals:
                                if isinstance(x0, tuple) and _mentions_closure(x0, cid, ischain):
                                    escaped = True
            if not escaped:
                for op in self.ops.values():
                    op.bodies = [b for b in op.bodies if b not in own]
                for b in own:
                    self.body_op.pop(b, None)
                self.inlined_away = getattr(self, "inlined_away", set()) | own
        # indirect calls through a cell holding a local closure (concat's next_ref) become thunk calls
        for op in self.ops.values():
            for bid in op.bodies:
                b = P.bodies[bid]
                for k, e in list(b.effects.items()):
                    if e.kind != "indirect":
                        continue
                    loads = [x for x in walk(e.target) if x[0] == "cellload"]
                    if not loads:
                        continue
                    base = base_key(loads[0][1])
                    targets = set()
                    for (_, val) in self._cell_store_values(op, base):
                        if val is None:
                            continue
                        v = val
                        if v[0] == "agg" and v[2] == "Option::Some":
                            v = v[3][0]
                        if v[0] == "agg" and v[1] == "closure" and v[2] in P.bodies and not P.bodies[v[2]].is_handler():
                            targets.add(v[2])
                        elif not (v[0] == "agg" and v[2] == "Option::None"):
                            targets.add(None)
                    if len(targets) == 1 and None not in targets:
                        ne = Effect("thunk", e.site, e.s, target=targets.pop(), fn=e.target, via="cell")
                        ne.tracing = e.tracing
                        b.effects[k] = ne

    def op_by_name(self, name):
        for op in self.ops.values():
            if op.name == name:
                return op
        raise KeyError(name)

    # ---------------- roles by flow
    def all_effects(self, bid):
        b = self.prog.bodies[bid]
        for k in sorted(b.effects):
            yield b.effects[k]
        for k in sorted(b.stmt_effects):
            yield b.stmt_effects[k]

    def _roles(self, op):
        P = self.prog
        handlers = [bid for bid in op.bodies if P.bodies[bid].is_handler()]
        op.handlers = handlers
        sub = {}   # handler def -> (recv expr, effect)
        for bid in op.bodies:
            for e in self.all_effects(bid):
                if e.kind == "send":
                    op.sends.append((e, bid))
                    hs_payloads = []
                    if e.variant == "Handshake" and e.payload is not None:
                        hs_payloads.append(e.payload)
                    elif e.variant == "UNKNOWN" and e.get("msg") is not None and e.msg[0] == "phi":
                        # a message built in `let out = match message { .. }`: the Handshake alternative hands the handler over
                        for alt in e.msg[1]:
                            sv, pl = send_fields(alt)
                            if sv == "Handshake" and pl is not None:
                                hs_payloads.append(pl)
                    for pl in hs_payloads:
                        # only the outermost closure of the payload is the handler handed over
                        if pl[0] == "agg" and pl[1] == "closure":
                            sub.setdefault(pl[2], []).append((e, bid))
        roots = [h for h in handlers if h not in sub]
        for h in handlers:
            if h in sub:
                continue
            op.roles[h] = "ROOT"
        if len(roots) == 1:
            op.root = roots[0]
        elif len(roots) > 1:
            # nested handlers never handed to anybody are unclassified
            outer = [h for h in roots if not any(a in handlers for a in P.ancestors(h))]
            op.root = outer[0] if len(outer) == 1 else None
            for h in roots:
                if h != op.root:
                    op.roles[h] = "UNCLASSIFIED"
        # iterate to a fixpoint: a handler's role is decided by the class of the receiver it is handed to
        changed = True
        rounds = 0
        while changed and rounds < 6:
            changed = False
            rounds += 1
            for h, uses in sub.items():
                rs = set()
                for (e, bid) in uses:
                    cls = self.recv_class(op, e.recv)
                    if cls[0] == "SINK":
                        rs.add("DOWN")
                    elif cls[0] == "UPSRC":
                        rs.add("UP")
                    elif cls[0] == "UPSRC_INNER":
                        rs.add("UP_INNER")
                    else:
                        rs.add("?" + cls[0])
                r = rs.pop() if len(rs) == 1 else "AMBIGUOUS"
                if op.roles.get(h) != r:
                    op.roles[h] = r
                    changed = True
        for bid in op.bodies:
            if bid in op.roles:
                continue
            b = P.bodies[bid]
            if bid == op.id:
                op.roles[bid] = "FACTORY"
            elif b.kind == "coroutine":
                op.roles[bid] = "TASK"
            elif not any(a in handlers for a in P.ancestors(bid)) and not b.is_handler():
                op.roles[bid] = "APPLICATION" if self._returns_callbag(b) or self._is_app(op, b) else "HELPER"
            else:
                op.roles[bid] = "THUNK"

    def _is_app(self, op, b):
        # the closure returned (boxed) by the factory: parent is the factory and it contains handlers
        return b.parent == op.id and any(h for h in op.handlers if b.id in self.prog.ancestors(h))

    def _returns_callbag(self, b):
        return "callbag" in b.locals[0]["flags"]

    # ---------------- receiver classes
    def hs_payload_of(self, e):
        """If e contains the Handshake payload of a handler parameter, return those handler ids."""
        out = []
        for x in walk(e):
            if x[0] == "field" and x[2] == 0 and x[1][0] == "downcast" and x[1][2] == "Handshake" and x[1][1][0] == "param" and x[1][1][2] == 2:
                out.append(x[1][1][1])
        return out

    def data_payload_of(self, e):
        out = []
        for x in walk(e):
            if x[0] == "field" and x[2] == 0 and x[1][0] == "downcast" and x[1][2] == "Data" and x[1][1][0] == "param" and x[1][1][2] == 2:
                out.append(x[1][1][1])
        return out

    def recv_class(self, op, recv, depth=0):
        """Classify a receiver expression: (class, detail).  Memoised once roles are settled (it is asked for every send on
        every path of every lemma)."""
        if depth == 0 and getattr(self, "_roles_done", False):
            ck0 = (op.id, recv)
            hit = self._recv_cache.get(ck0)
            if hit is None:
                hit = self._recv_class(op, recv, depth)
                self._recv_cache[ck0] = hit
            return hit
        return self._recv_class(op, recv, depth)

    def _recv_class(self, op, recv, depth=0):
        P = self.prog
        loads = [x for x in walk(recv) if x[0] == "cellload"]
        if loads:
            ck = cell_key(loads[0][1])
            # what is stored in that cell?
            contents = set()
            for (k2, val) in self._cell_store_values(op, ck[0]):
                if val is None:
                    continue
                top = val
                while top[0] == "agg" and top[2] == "Option::Some" and top[3]:
                    top = top[3][0]
                if top[0] == "agg" and top[1] == "closure":
                    if top[2] in P.bodies and not P.bodies[top[2]].is_handler():
                        contents.add("THUNK")
                    else:
                        contents.add("HANDLER")
                    continue
                if top[0] == "field" and top[1][0] == "downcast" and top[1][2] == "Handshake" and top[1][1][0] == "param":
                    r = op.roles.get(top[1][1][1])
                    contents.add("SINK" if r == "ROOT" else "UPTB")
                    continue
                if top[0] == "agg" and top[2] == "Option::None":
                    continue
                if top[0] in ("call", "agg") and not self.hs_payload_of(top):
                    continue      # an empty / fresh container (share's `vec![]`), not a peer
                for h in self.hs_payload_of(top):
                    r = op.roles.get(h)
                    contents.add("SINK" if r == "ROOT" else "UPTB")
            if contents == {"UPTB"}:
                return ("UPTB", ("cell", ck))
            if contents == {"SINK"}:
                return ("SINKLIST", ("cell", ck))
            if contents == {"THUNK"}:
                return ("THUNKCELL", ("cell", ck))
            return ("UNCLASSIFIED", ("cell", ck, tuple(sorted(contents))))
        hs = self.hs_payload_of(recv)
        if hs:
            roles = {op.roles.get(h, "?") for h in hs}
            if roles == {"ROOT"}:
                return ("SINK", ("direct", hs[0]))
            if roles <= {"UP", "UP_INNER"}:
                return ("UPTB", ("direct", hs[0]))
            return ("UNCLASSIFIED", ("hs", tuple(sorted(roles))))
        dp = self.data_payload_of(recv)
        if dp:
            return ("UPSRC_INNER", ("data", dp[0]))
        params = [x for x in walk(recv) if x[0] == "param"]
        if params:
            owners = {x[1] for x in params}
            if all(o in P.bodies and not P.bodies[o].is_handler() for o in owners):
                return ("UPSRC", ("param", params[0]))
        return ("UNCLASSIFIED", ("expr", show(recv)))

    def _cell_store_values(self, op, base):
        """All values written into cells with this base allocation: (selector, value expr)."""
        key = (op.id, base)
        if getattr(self, "_roles_done", False) and key in self._csv_cache:
            return self._csv_cache[key]
        out = self._cell_store_values_uncached(op, base)
        if getattr(self, "_roles_done", False):
            self._csv_cache[key] = out
        return out

    def _cell_store_values_uncached(self, op, base):
        out = []
        for bid in op.bodies:
            for e in self.all_effects(bid):
                if e.kind == "cell" and e.op in ("store", "swap") and base_key(e.cell) == base:
                    out.append((cell_key(e.cell)[1], e.value))
                elif e.kind == "cell" and e.op == "rcu" and base_key(e.cell) == base and e.closure:
                    # values flowing into the closure's result: every pstore / return inside the closure
                    cb = self.prog.bodies.get(e.closure)
                    if cb is not None:
                        body_effects(self.prog, cb)
                        for e2 in self.all_effects(cb.id):
                            if e2.kind == "pstore":
                                out.append((None, e2.value))
                            if e2.kind in ("other", "hocall") and e2.callee.endswith("::push"):
                                for a in e2.args[1:]:
                                    out.append((None, a))
                            if e2.kind in ("other", "hocall") and e2.callee.endswith("iter::once"):
                                # `old.iter().cloned().chain(iter::once(x)).collect()`: x is appended
                                for a in e2.args:
                                    out.append((None, a))
        return out

    # ---------------- cells
    def _cells(self):
        P = self.prog
        for op in self.ops.values():
            for bid in op.bodies:
                for e in self.all_effects(bid):
                    ce = None
                    if e.kind in ("atomic", "cell", "lock"):
                        ce = e.cell
                    if ce is None:
                        continue
                    k = cell_key(ce)
                    c = op.cells.get(k[0])
                    if c is None:
                        c = op.cells[k[0]] = Cell(k[0], strip_cell(ce)[0])
                    (c.loads if (e.kind == "atomic" and e.op == "load") or (e.kind == "cell" and e.op in ("load", "load_full")) else c.stores).append((e, bid))
            for k, c in op.cells.items():
                if k[0] and isinstance(k[0], tuple) and k[0][0] in P.bodies:
                    ab = k[0][0]
                    c.scope = self.scope_of(op, ab)
                    c.name = self.debug_name(ab, k[0][1])

    def scope_of(self, op, bid):
        r = op.roles.get(bid, "?")
        if r == "FACTORY":
            return "FACTORY"
        if r == "APPLICATION":
            return "APPLICATION"
        if r == "ROOT":
            return "SUBSCRIPTION"
        if r in ("UP", "DOWN", "UP_INNER", "THUNK", "TASK"):
            return "DELIVERY" if r != "THUNK" else "SUBSCRIPTION"
        return "?"

    def debug_name(self, bid, bb):
        """Best-effort variable name for the value produced by the call in block bb (reports only)."""
        b = self.prog.bodies[bid]
        t = b.blocks[bb]["term"]
        if t["k"] != "call":
            return None
        dest = t["dest"]["l"]
        # follow moves forward a few steps to a named local
        names = {}
        for d in b.raw["debug"]:
            v = d["val"]
            if "l" in v and not v["p"]:
                names[v["l"]] = d["name"]
        cur = {dest}
        for _ in range(6):
            for l in list(cur):
                if l in names:
                    return names[l]
            nxt = set()
            for blk in b.blocks.values():
                for st in blk["stmts"]:
                    if "lhs" in st and not st["lhs"]["p"]:
                        rv = st["rv"]
                        srcs = []
                        if rv["k"] == "use":
                            o = rv["o"]; p = o.get("move") or o.get("copy")
                            if p: srcs.append(p["l"])
                        if any(s in cur for s in srcs):
                            nxt.add(st["lhs"]["l"])
                tt = blk["term"]
                if tt["k"] == "call" and not tt["dest"]["p"]:
                    for a in tt["args"]:
                        p = a.get("move") or a.get("copy")
                        if p and p["l"] in cur and tt["callee"].get("def") in ALIAS_CALLEES:
                            nxt.add(tt["dest"]["l"])
            if not nxt:
                break
            cur = nxt
        return None

    def cell_name(self, op, cell_expr):
        k = cell_key(cell_expr)
        c = op.cells.get(k[0])
        n = (c.name if c and c.name else None) or ("cell@bb%s" % (k[0][0][1],) if isinstance(k[0][0], tuple) else show(cell_expr))
        if k[1]:
            if k[1][0] == "field":
                n += ".%d" % k[1][1]
            else:
                n += "[%s]" % self.show_idx(k[1][1])
        return n

    def show_idx(self, e):
        if e[0] == "upvar" or e[0] == "param":
            return show(e)
        return show(e)

    # ---------------- arm summaries (Appendix A in machine form)
    def fmt_effect(self, op, e):
        k = e.kind
        if k == "send":
            cls = self.recv_class(op, e.recv)
            tgt = {"SINK": "S", "UPTB": "U", "UPSRC": "src", "UPSRC_INNER": "src'", "SINKLIST": "S*"}.get(cls[0], "??" + cls[0])
            if cls[0] == "UPTB" and cls[1][0] == "cell":
                tgt = "U[%s]" % self.cell_name(op, [x for x in walk(e.recv) if x[0] == "cellload"][0][1])
            v = VSHORT.get(e.variant, e.variant)
            pl = ""
            if e.payload is not None:
                pl = "(%s)" % self.fmt_payload(op, e.payload)
            return "->%s %s%s" % (tgt, v, pl)
        if k == "atomic":
            n = self.cell_name(op, e.cell)
            if e.op == "load":
                return "%s.load" % n
            if e.op == "store":
                return "%s:=%s" % (n, show(e.operand))
            return "%s.%s(%s)" % (n, e.op, show(e.operand))
        if k == "cell":
            n = self.cell_name(op, e.cell)
            if e.op == "store":
                v = e.value
                if v[0] == "agg" and v[2] == "Option::None":
                    return "%s:=None" % n
                if v[0] == "agg" and v[2] == "Option::Some":
                    return "%s:=Some(%s)" % (n, self.fmt_payload(op, v[3][0]))
                return "%s:=%s" % (n, self.fmt_payload(op, v))
            if e.op == "load":
                return "%s.load" % n
            return "%s.%s(%s)" % (n, e.op, short_body(e.closure) if e.closure else "")
        if k == "lock":
            return "%s.%s" % (self.cell_name(op, e.cell), e.op)
        if k == "panic":
            if e.pk == "panic":
                return "PANIC"
            return "%s?" % e.pk
        if k == "usercall":
            return "user(%s)" % ", ".join(self.fmt_payload(op, a) for a in e.args)
        if k == "thunk":
            return "call %s" % short_body(e.target)
        if k == "pstore":
            return "%s := %s" % (self.fmt_payload(op, e.place), self.fmt_payload(op, e.value) if isinstance(e.value, tuple) else e.value)
        if k == "iternext":
            return "iter.next"
        if k == "spawn":
            return "spawn(%s)" % (short_body(e.task) if e.task else "?")
        if k == "sleep":
            return "sleep(%s)" % show(e.period)
        if k == "poll":
            return "poll"
        if k in ("other", "hocall", "alias", "usertrait", "localcall", "indirect"):
            return "[%s %s]" % (k, (e.get("callee") or e.get("target") or "?").split("::")[-1] if isinstance(e.get("callee") or e.get("target"), str) else k)
        return k

    def fmt_payload(self, op, p):
        if p is None:
            return ""
        if p[0] == "agg" and p[1] == "closure":
            return "%s" % (op.roles.get(p[2], "closure") + ":" + short_body(p[2]))
        if p[0] == "field" and p[1][0] == "downcast" and p[1][1][0] == "param":
            return "in.%s" % p[1][2]
        if p[0] == "cellload":
            return "load[%s]" % self.cell_name(op, p[1])
        if p[0] == "aload":
            return "aload[%s]" % self.cell_name(op, p[1])
        if p[0] == "rmw":
            return "rmw_%s[%s]" % (p[2], self.cell_name(op, p[1]))
        if p[0] == "call":
            return "%s(%s)" % (p[2].split("::")[-1], ", ".join(self.fmt_payload(op, a) for a in p[3]))
        if p[0] in ("binop",):
            return "%s(%s, %s)" % (p[1], self.fmt_payload(op, p[2]), self.fmt_payload(op, p[3]))
        if p[0] == "someof":
            return "some(%s)" % self.fmt_payload(op, p[1])
        if p[0] == "agg":
            return "%s(%s)" % (p[2] or p[1], ", ".join(self.fmt_payload(op, a) for a in p[3]))
        if p[0] == "discr":
            return "discr(%s)" % self.fmt_payload(op, p[1])
        if p[0] == "field":
            return "%s.%s" % (self.fmt_payload(op, p[1]), p[2])
        if p[0] == "index":
            return "%s[%s]" % (self.fmt_payload(op, p[1]), self.fmt_payload(op, p[2]))
        if p[0] == "lock":
            return "lock[%s]" % self.cell_name(op, p[1])
        if p[0] == "phi":
            return "phi(%s)" % ", ".join(self.fmt_payload(op, a) for a in p[1])
        if p[0] == "unop":
            return "%s(%s)" % (p[1], self.fmt_payload(op, p[2]))
        return show(p)

    VISIBLE = ("send", "atomic", "cell", "lock", "panic", "usercall", "thunk", "iternext", "spawn", "sleep", "poll", "pstore")

    def arm_paths(self, bid, variant, inline=1):
        return enumerate_paths(self.prog, self.prog.bodies[bid], variant, inline=inline)

    def summary(self, opname, out, show_tau=False):
        op = self.op_by_name(opname)
        P = self.prog
        out.write("OPERATOR %s  (%d bodies)\n" % (op.name, len(op.bodies)))
        for k, c in sorted(op.cells.items(), key=lambda kv: str(kv[0])):
            out.write("  cell %-22s scope=%-12s alloc=%s\n" % (c.name, c.scope, show(c.alloc)))
        for bid in sorted(op.bodies):
            b = P.bodies[bid]
            role = op.roles.get(bid)
            out.write("  BODY %s  role=%s  %s\n" % (short_body(bid), role, loc_of(b.span)))
            arms = VARIANTS if b.is_handler() else [None]
            for v in arms:
                try:
                    paths = self.arm_paths(bid, v)
                except AnalysisError as ex:
                    out.write("    %s: %s\n" % (v, ex))
                    continue
                seen = set()
                for p in paths:
                    toks = []
                    for ev in p.events:
                        if ev[0] == "eff":
                            e = ev[1]
                            if e.tracing and not show_tau:
                                continue
                            if e.kind in self.VISIBLE or show_tau:
                                if e.kind == "panic" and e.pk.startswith("assert") and not show_tau:
                                    continue
                                toks.append(self.fmt_effect(op, e))
                        elif ev[0] == "br":
                            c = ev[1]
                            if c[0] == "flag":
                                continue
                            toks.append("if[%s=%s]" % (self.fmt_payload(op, c), ev[2]))
                        elif ev[0] == "yield":
                            toks.append("YIELD")
                        elif ev[0] == "enter":
                            toks.append("{")
                        elif ev[0] == "leave":
                            toks.append("}")
                    line = "; ".join(toks) + "  => " + p.end
                    if line in seen:
                        continue
                    seen.add(line)
                    out.write("    %-9s %s\n" % ((VSHORT[v] if v else "-") + ":", line))


if __name__ == "__main__":
    import sys
    P = Program(sys.argv[1])
    M = Model(P)
    names = sys.argv[2:] or sorted({op.name for op in M.ops.values()})
    for n in names:
        try:
            M.summary(n, sys.stdout)
        except KeyError:
            print("no operator", n)
