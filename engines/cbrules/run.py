#!/usr/bin/env python3
"""run: entry point of the rule engine.

  run.py check <ID> [--tier quick|thorough]     decide property ID on /repo's current working tree
  run.py show <report.json>                     print a violation report
  run.py summary <config> [operator...]         print the arm summaries (debugging)
"""
import sys, os, json, time, hashlib, subprocess, fcntl, glob

HERE = os.path.dirname(os.path.abspath(__file__))
VERIF = os.path.abspath(os.path.join(HERE, "..", ".."))
sys.path.insert(0, HERE)
REPO = os.environ.get("CB_REPO", "/repo")
WORK = os.environ.get("CBMIR_WORK", os.path.join(VERIF, ".work"))

from cbcore import Program, AnalysisError
from model import Model
from lemmas import Ctx
import props


def tree_hash(repo):
    h = hashlib.sha256()
    files = []
    for root, dirs, fs in os.walk(os.path.join(repo, "src")):
        dirs.sort()
        for f in sorted(fs):
            files.append(os.path.join(root, f))
    for f in ("Cargo.toml", "Cargo.lock"):
        p = os.path.join(repo, f)
        if os.path.exists(p):
            files.append(p)
    for p in files:
        h.update(os.path.relpath(p, repo).encode())
        h.update(b"\0")
        with open(p, "rb") as fh:
            h.update(fh.read())
        h.update(b"\0")
    # the extractor itself is part of the input
    drv = os.path.join(VERIF, "engines", "cbmir", "src", "main.rs")
    with open(drv, "rb") as fh:
        h.update(fh.read())
    return h.hexdigest()


def facts_for(config, th):
    os.makedirs(os.path.join(WORK, "facts"), exist_ok=True)
    out = os.path.join(WORK, "facts", "%s-%s.json" % (th[:24], config))
    lock = os.path.join(WORK, "extract-%s.lock" % config)
    with open(lock, "w") as lf:
        fcntl.flock(lf, fcntl.LOCK_EX)
        if not os.path.exists(out):
            tmp = out + ".new"
            r = subprocess.run([os.path.join(VERIF, "engines", "extract.sh"), config, tmp, REPO], capture_output=True, text=True)
            if r.returncode != 0 or not os.path.exists(tmp):
                sys.stderr.write(r.stdout + r.stderr)
                raise SystemExit(2)
            # the tree must not have changed while we extracted
            if tree_hash(REPO) != th:
                sys.stderr.write("run: /repo changed during extraction; re-run\n")
                raise SystemExit(2)
            os.rename(tmp, out)
            # keep the cache small: the 6 most recent fact files
            fs = sorted(glob.glob(os.path.join(WORK, "facts", "*.json")), key=os.path.getmtime)
            for f in fs[:-6]:
                try:
                    os.remove(f)
                except OSError:
                    pass
        fcntl.flock(lf, fcntl.LOCK_UN)
    return out


def load_known():
    known, fixed = {}, []
    p = os.path.join(VERIF, "known_findings.txt")
    if os.path.exists(p):
        for line in open(p):
            line = line.strip()
            if not line or line.startswith("#"):
                continue
            if line.startswith("known:"):
                head, _, what = line[len("known:"):].partition("::")
                kv = dict(x.split("=", 1) for x in head.split() if "=" in x)
                known.setdefault(kv.get("property"), {})[kv.get("key")] = what.strip()
            elif line.startswith("fixed:"):
                fixed.append(line)
    return known, fixed


def cmd_check(prop_id, tier):
    t0 = time.time()
    seed = int(os.environ.get("VERIF_SEED", "0") or 0)
    if prop_id not in props.REGISTRY:
        sys.stderr.write("unknown property %s\n" % prop_id)
        return 2
    spec = props.REGISTRY[prop_id]
    th = tree_hash(REPO)
    configs = ["default", "tracing"]
    ctx = Ctx(prop_id, tier)
    models = {}
    nbodies = 0
    for c in configs:
        f = facts_for(c, th)
        P = Program(f)
        if P.config != c:
            sys.stderr.write("run: fact file %s has config %s, expected %s\n" % (f, P.config, c))
            return 2
        M = Model(P)
        models[c] = M
        nbodies += len(P.bodies)
    import opview
    if tier == "thorough":
        opview.DEPTH["max_visits"], opview.DEPTH["inline"] = 3, 2
    try:
        for c in configs:
            ctx.use(c, models[c])
            spec["fn"](ctx, models[c], tier, models)
        ctx.check_floors()
        extra = {}
        if spec.get("post"):
            extra = spec["post"](ctx, models, tier) or {}
    except AnalysisError as ex:
        # fail closed: a tree the engine cannot enumerate is reported as a violation of the census, not as a crash
        extra = {}
        ctx.config = "default+tracing"
        ctx.ob("CEN-H", "analysis-complete", False, "analysis incomplete, fail closed: %s" % ex)
    except (KeyError, IndexError, TypeError, AttributeError, ValueError, RecursionError) as ex:
        import traceback
        tb = traceback.extract_tb(sys.exc_info()[2])[-1]
        extra = {}
        ctx.config = "default+tracing"
        ctx.ob("CEN-H", "analysis-complete", False, "the rule engine met a shape it does not model (%s: %s at %s:%d), fail closed" % (
            type(ex).__name__, str(ex)[:120], os.path.basename(tb.filename), tb.lineno))
    known, fixed = load_known()
    kn = known.get(prop_id, {})
    viol = []
    known_hit = {}
    for o in ctx.obs:
        if o.ok:
            continue
        if o.key in kn:
            o.known = kn[o.key]
            known_hit.setdefault(o.key, []).append(o)
        else:
            viol.append(o)
    nested = bool(os.environ.get("CB_NO_EVIDENCE"))
    # reports
    rdir = os.path.join(VERIF, "reports", prop_id if not nested else prop_id + "-seeded")
    os.makedirs(rdir, exist_ok=True)
    for f in glob.glob(os.path.join(rdir, "*.json")):
        os.remove(f)
    lines = []
    seen_keys = {}
    for o in viol:
        seen_keys.setdefault((o.key, o.lemma), []).append(o)
    n = 0
    for (key, lemma), os_ in sorted(seen_keys.items()):
        n += 1
        rp = os.path.join(rdir, "%d.json" % n)
        with open(rp, "w") as fh:
            json.dump({"property": prop_id, "lemma": lemma, "key": key, "tree_sha256": th,
                       "instances": [o.as_dict() for o in os_]}, fh, indent=1)
        o = os_[0]
        print("FAIL %s [%s] %s (%s) %s" % (key, ",".join(sorted({x.config for x in os_})), o.detail, lemma, o.loc or ""))
        lines.append("VIOLATION property=%s replay=%s" % (prop_id, os.path.relpath(rp, VERIF)))
    for key, os_ in sorted(known_hit.items()):
        print("KNOWN-FINDING: property=%s %s %s" % (prop_id, key, kn[key]))
    # a listed finding that no longer reproduces is reported (not an error: the tree may have been repaired)
    for key in kn:
        if key not in known_hit:
            print("NOTE: known finding %s did not reproduce on this tree" % key)
    total = len(ctx.obs)
    okc = sum(1 for o in ctx.obs if o.ok)
    by_lemma = {}
    for o in ctx.obs:
        d = by_lemma.setdefault(o.lemma, [0, 0])
        d[0] += 1
        d[1] += 1 if o.ok else 0
    for lemma in sorted(by_lemma):
        print("  %-28s %4d/%-4d" % (lemma, by_lemma[lemma][1], by_lemma[lemma][0]))
    wall = time.time() - t0
    # evidence
    level = spec["level"]
    samples = []
    for o in ctx.obs[:: max(1, len(ctx.obs) // 8)][:8]:
        samples.append({"lemma": o.lemma, "instance": o.key, "config": o.config, "site": o.loc, "holds": o.ok, "detail": o.detail[:200]})
    distinct_keys = len({(o.lemma, o.key) for o in ctx.obs})
    cov = {
        "evaluations": total,
        "distinct_nontrivial": distinct_keys,
        "rule": "one evaluation = one lemma instance (operator, handler, arm, site) decided on the MIR-derived path set of the "
                "current /repo tree in one feature configuration; distinct = distinct (lemma, instance key) pairs, all non-trivial "
                "because an instance exists only where the template's slots were filled from the code",
        "samples": samples,
        "explanation": spec["explanation"],
        "configs": configs,
        "bodies_analysed": nbodies,
        "helpers_inlined": {c: sorted({"%s <- %s" % (a, h) for a, h in models[c].prog.inlined}) for c in configs},
        "distinct_sites": len(ctx.sites),
        "lemma_instances": {k: v[0] for k, v in by_lemma.items()},
        "lemma_holds": {k: v[1] for k, v in by_lemma.items()},
        "tree_sha256": th,
        "known_findings_matched": sorted(known_hit),
        "axioms_used": sorted(ctx.axioms | set(spec.get("axioms", []))),
        "exhaustive": True,
    }
    if level == "proof":
        cov.update({"obligations": total, "discharged": okc + sum(len(v) for v in known_hit.values()) if False else okc,
                    "checker_cmd": "./check %s --tier %s" % (prop_id, tier),
                    "trusted_base": spec.get("trusted_base", [])})
    if level == "translation_validation":
        cov.update({"programs": extra.get("programs", 0), "disagreements_checked": extra.get("disagreements_checked", 0)})
    cov.update({k: v for k, v in extra.items() if k not in cov})
    if tier == "thorough" and not nested:
        sr = seeded_replay(prop_id)
        cov.update(sr)
        print("  seeded self-test: %d kept change(s) expected to trip this check, %d replayed on a scratch copy, %d detected%s%s" % (
            sr["seeded_total"], sr["seeded_replayed"], sr["seeded_killed"],
            (", skipped " + ",".join(sr["seeded_skipped"])) if sr["seeded_skipped"] else "",
            (", MISSED " + ",".join(sr["seeded_missed"])) if sr["seeded_missed"] else ""))
        for nm in sr["seeded_missed"]:
            print("SELFTEST-MISS property=%s seeded=%s (the check did not fire on a change known to break the property)" % (prop_id, nm))
    ev = {
        "property_id": prop_id, "tier": tier, "seed": seed, "level": level, "coverage": cov,
        "assumptions": spec.get("assumptions", []) + ctx.assumptions,
        "wall_s": round(wall, 2), "violations": len(lines),
    }
    if not nested:
        ev["wall_s"] = round(time.time() - t0, 2)
        os.makedirs(os.path.join(VERIF, "evidence"), exist_ok=True)
        evp = os.path.join(VERIF, "evidence", "%s.json" % prop_id)
        with open(evp + ".tmp", "w") as fh:
            json.dump(ev, fh, indent=1)
        os.rename(evp + ".tmp", evp)
    print("%s %s: %d lemma instances, %d hold, %d known findings, %d violations, %.1fs" % (
        prop_id, tier, total, okc, len(known_hit), len(lines), wall))
    for l in lines:
        print(l)
    return 1 if lines else 0


def seeded_replay(prop_id, max_n=4):
    """Thorough tier: apply each kept seeded change that is expected to make this check fire to a scratch copy of the
    current tree and require the (quick) check to report a violation there.  Returns a dict for the evidence."""
    import tempfile, shutil
    seeds = []
    sd = os.path.join(VERIF, "seeded")
    if os.path.isdir(sd):
        for name in sorted(os.listdir(sd)):
            mp = os.path.join(sd, name, "meta.json")
            pp = os.path.join(sd, name, "patch.diff")
            if os.path.exists(mp) and os.path.exists(pp):
                meta = json.load(open(mp))
                if prop_id in meta.get("expected_to_fire", []):
                    seeds.append((name, pp))
    res = {"seeded_total": len(seeds), "seeded_replayed": 0, "seeded_killed": 0, "seeded_skipped": [], "seeded_missed": [], "seeded_details": []}
    for name, pp in seeds[:max_n]:
        tmp = tempfile.mkdtemp(prefix="cbseed-")
        try:
            for f in ("src", "tests", "Cargo.toml", "Cargo.lock", "README.md"):
                sp = os.path.join(REPO, f)
                if os.path.isdir(sp):
                    shutil.copytree(sp, os.path.join(tmp, f))
                elif os.path.exists(sp):
                    shutil.copy(sp, os.path.join(tmp, f))
            r = subprocess.run(["patch", "-p1", "-s", "-i", pp], cwd=tmp, capture_output=True, text=True)
            if r.returncode != 0:
                res["seeded_skipped"].append(name)
                res["seeded_details"].append({"seed": name, "result": "patch does not apply to the current tree (skipped)"})
                continue
            env = dict(os.environ)
            env["CB_REPO"] = tmp
            env["CB_NO_EVIDENCE"] = "1"
            r = subprocess.run([sys.executable, os.path.abspath(__file__), "check", prop_id, "--tier", "quick"], capture_output=True, text=True, env=env)
            res["seeded_replayed"] += 1
            fails = [l for l in r.stdout.split("\n") if l.startswith("FAIL ")]
            if r.returncode == 1 and fails:
                res["seeded_killed"] += 1
                res["seeded_details"].append({"seed": name, "result": "check fires", "first_report": fails[0][:200]})
            else:
                res["seeded_missed"].append(name)
                res["seeded_details"].append({"seed": name, "result": "NOT detected (exit %d)" % r.returncode})
        finally:
            shutil.rmtree(tmp, ignore_errors=True)
    return res


def cmd_show(path):
    r = json.load(open(path))
    print("property %s  lemma %s  instance %s" % (r["property"], r["lemma"], r["key"]))
    for i in r["instances"]:
        print("  [%s] %s\n      at %s" % (i["config"], i["detail"], i["loc"]))
    return 0


def cmd_summary(config, names):
    th = tree_hash(REPO)
    M = Model(Program(facts_for(config, th)))
    for n in names or sorted({op.name for op in M.ops.values() if op.handlers}):
        M.summary(n, sys.stdout)
    return 0


def main(argv):
    if len(argv) < 2:
        print(__doc__)
        return 2
    if argv[1] == "check":
        tier = os.environ.get("VERIF_TIER", "quick")
        if "--tier" in argv:
            tier = argv[argv.index("--tier") + 1]
        return cmd_check(argv[2], tier)
    if argv[1] == "show":
        return cmd_show(argv[2])
    if argv[1] == "summary":
        return cmd_summary(argv[2], argv[3:])
    print(__doc__)
    return 2


if __name__ == "__main__":
    sys.exit(main(sys.argv))
