"""cbcore: program model over cbmir facts.

Stages (DESIGN.md section 4.2): origins (per-body value numbering), linking (upvars ->
capture operands), effects (call classification), arms (per incoming Message variant) and
path enumeration over the arm's CFG with constant propagation of compiler-generated
drop flags.  No callbag code is executed; everything here is a traversal of the MIR CFG.
"""
import json, os, re, sys
from functools import lru_cache

VARIANTS = ["Handshake", "Data", "Pull", "Error", "Terminate"]
VSHORT = {"Handshake": "H", "Data": "D", "Pull": "P", "Error": "E", "Terminate": "T"}

class AnalysisError(Exception):
    pass

# ----------------------------------------------------------------------------- helpers

def const_int(o):
    c = o.get("const")
    if c is None:
        return None
    if "int" in c:
        return int(c["int"])
    return None

def loc_of(s):
    """Source location for reports: prefer the outermost call site inside the analysed crate."""
    return s.get("cs", s.get("sp", "?"))

def own_file(s):
    return s.get("sp", "?").rsplit(":", 2)[0]

def is_tracing_prov(s):
    """Was this code written inside one of the tracing crates' macro definitions?"""
    f = own_file(s)
    if f.startswith("dep:tracing"):
        return True
    for b in s.get("bt", []):
        # the innermost macro whose definition lives in a tracing crate and whose tokens we are in
        pass
    return False

# ----------------------------------------------------------------------------- expressions
# Expressions are nested tuples; first element is the tag.
#  ('param', body, i)           i-th MIR argument of body (1-based local index)
#  ('self', body)               the closure environment
#  ('upvar', body, k)           k-th captured variable (before linking)
#  ('saved', body, variant, k)  coroutine saved local
#  ('const', ty, text, int|None)
#  ('field', e, i) ('downcast', e, name) ('index', e, ie)
#  ('agg', kind, name, (ops...))      kind in tuple/array/adt/closure/coroutine ; name = "Adt::Variant" or closure def
#  ('call', site, callee_key, (args...))   opaque call result
#  ('someof', e)               payload of Option/Result after unwrap/expect or `Some` downcast
#  ('cellload', cell_expr, site)  ('aload', cell_expr, site)  ('rmw', cell_expr, op, operand, site)
#  ('lock', cell_expr, site)
#  ('binop', op, a, b) ('unop', op, a) ('discr', e) ('cast', e)
#  ('phi', (e...))  ('unknown', why)
# site = (body_id, bb)

def walk(e):
    """Yield every sub-expression (pre-order)."""
    stack = [e]
    seen = 0
    while stack:
        x = stack.pop()
        seen += 1
        if seen > 200000:
            return
        yield x
        if isinstance(x, tuple):
            for y in x[1:]:
                if isinstance(y, tuple) and y and isinstance(y[0], str):
                    stack.append(y)
                elif isinstance(y, tuple):
                    for z in y:
                        if isinstance(z, tuple) and z and isinstance(z[0], str):
                            stack.append(z)

def leaves_of(e, tags):
    return [x for x in walk(e) if x[0] in tags]

def show(e, depth=0):
    if not isinstance(e, tuple) or not e:
        return str(e)
    if depth > 6:
        return "…"
    t = e[0]
    if t == "param": return "param%d@%s" % (e[2], short_body(e[1]))
    if t == "self": return "self@%s" % short_body(e[1])
    if t == "upvar": return "upvar%d@%s" % (e[2], short_body(e[1]))
    if t == "saved": return "saved%s.%s" % (e[2], e[3])
    if t == "const": return "%s" % (e[2],)
    if t == "field": return "%s.%d" % (show(e[1], depth + 1), e[2])
    if t == "downcast": return "(%s as %s)" % (show(e[1], depth + 1), e[2])
    if t == "index": return "%s[%s]" % (show(e[1], depth + 1), show(e[2], depth + 1))
    if t == "agg": return "%s(%s)" % (e[2] if e[2] else e[1], ", ".join(show(x, depth + 1) for x in e[3]))
    if t == "call": return "%s@bb%d(%s)" % (e[2].split("::")[-1], e[1][1], ", ".join(show(x, depth + 1) for x in e[3]))
    if t == "someof": return "some(%s)" % show(e[1], depth + 1)
    if t == "cellload": return "load[%s]" % show(e[1], depth + 1)
    if t == "aload": return "aload[%s]" % show(e[1], depth + 1)
    if t == "rmw": return "rmw_%s[%s,%s]" % (e[2], show(e[1], depth + 1), show(e[3], depth + 1))
    if t == "lock": return "lock[%s]" % show(e[1], depth + 1)
    if t == "binop": return "%s(%s, %s)" % (e[1], show(e[2], depth + 1), show(e[3], depth + 1))
    if t == "unop": return "%s(%s)" % (e[1], show(e[2], depth + 1))
    if t == "discr": return "discr(%s)" % show(e[1], depth + 1)
    if t == "cast": return "cast(%s)" % show(e[1], depth + 1)
    if t == "phi": return "phi(%s)" % ", ".join(show(x, depth + 1) for x in e[1])
    return str(e)[:80]

def short_body(bid):
    # "take::take::{closure#0}::{closure#0}::{closure#1}" -> "take#0#0#1"
    parts = bid.split("::")
    nums = [re.sub(r"[^0-9]", "", p) for p in parts if p.startswith("{closure#")]
    head = [p for p in parts if not p.startswith("{closure#")]
    h = head[-1] if head else bid
    if bid.startswith("<("):
        m = re.match(r"<\(([^)]*)\)", bid)
        n = len([x for x in m.group(1).split(",") if x.strip()]) if m else 0
        h = "combine/%d" % n
    return h + "".join("#" + n for n in nums)

# ----------------------------------------------------------------------------- callee tables

ALIAS_CALLEES = {
    # callee def path -> index of the argument whose origin is returned
    "std::ops::Deref::deref": 0,
    "std::ops::DerefMut::deref_mut": 0,
    "std::sync::Arc::<T>::new": 0,
    "std::sync::Arc::<T, A>::downgrade": 0,
    "std::sync::Weak::<T, A>::upgrade": 0,     # an Option of the same object; the Some-test / expect is seen separately
    "std::boxed::Box::<T>::new": 0,
    "std::convert::Into::into": 0,
    "std::option::Option::<T>::as_ref": 0,
    "std::option::Option::<T>::as_mut": 0,
    "std::option::Option::<T>::as_deref": 0,
    "std::convert::AsRef::as_ref": 0,
    "std::borrow::Borrow::borrow": 0,
    "std::pin::Pin::<Ptr>::new_unchecked": 0,
    "std::pin::Pin::<Ptr>::new": 0,
    "std::pin::Pin::<Ptr>::as_mut": 0,
    "std::pin::Pin::<Ptr>::get_mut": 0,
    "combine::IntoArcSource::into_arc_source": 0,
    "std::future::IntoFuture::into_future": 0,
    "std::iter::IntoIterator::into_iter": 0,
    "std::slice::<impl [T]>::iter": 0,
    "core::slice::<impl [T]>::iter": 0,
    "std::vec::Vec::<T>::into_boxed_slice": 0,
    "std::slice::<impl [T]>::into_vec": 0,
    "core::slice::<impl [T]>::into_vec": 0,
    "alloc::slice::<impl [T]>::into_vec": 0,
    "std::iter::Iterator::collect": 0,
    "std::iter::Iterator::map": 0,   # the mapped collection still derives from its input
}
UNWRAP_CALLEES = {
    "std::option::Option::<T>::expect", "std::option::Option::<T>::unwrap",
    "std::result::Result::<T, E>::unwrap", "std::result::Result::<T, E>::expect",
    "std::option::Option::<T>::unwrap_unchecked",
}
ATOMIC_RE = re.compile(r"^std::sync::atomic::Atomic(?:::<[^>]*>|Usize|Bool|Isize|U\d+|I\d+)?::(\w+)$")
ARCSWAP_RE = re.compile(r"^arc_swap::ArcSwapAny::<T, S>::(\w+)$")
PANIC_CALLEES = {
    "std::rt::panic_fmt", "core::panicking::panic_fmt", "core::panicking::panic", "std::rt::begin_panic",
    "core::panicking::panic_explicit", "core::panicking::unreachable_display", "core::panicking::panic_display",
    "core::panicking::assert_failed", "core::option::unwrap_failed", "core::option::expect_failed",
    "core::result::unwrap_failed", "core::panicking::panic_bounds_check",
}
TRACING_CRATES = {"tracing", "tracing_core", "tracing_futures", "tracing_attributes", "log"}


def rewrite(e, fn, depth=0):
    """Bottom-up rewriting of an expression tree: fn(node) -> replacement or None."""
    if not isinstance(e, tuple) or not e or not isinstance(e[0], str) or depth > 80:
        return e
    parts = []
    changed = False
    for x in e:
        if isinstance(x, tuple) and x and isinstance(x[0], str):
            y = rewrite(x, fn, depth + 1)
        elif isinstance(x, tuple):
            y = tuple(rewrite(z, fn, depth + 1) if isinstance(z, tuple) and z and isinstance(z[0], str) else z for z in x)
        else:
            y = x
        changed = changed or (y is not x)
        parts.append(y)
    ne = tuple(parts) if changed else e
    # simplifications that become possible after a substitution
    if ne[0] == "field" and isinstance(ne[1], tuple) and ne[1][0] == "agg" and isinstance(ne[2], int) and ne[2] < len(ne[1][3]):
        ne = ne[1][3][ne[2]]
    elif ne[0] == "field" and isinstance(ne[1], tuple) and ne[1][0] == "downcast" and isinstance(ne[1][1], tuple) and ne[1][1][0] == "agg" \
            and ne[1][1][1] == "adt" and ne[1][1][2].endswith("::" + str(ne[1][2])) and isinstance(ne[2], int) and ne[2] < len(ne[1][1][3]):
        ne = ne[1][1][3][ne[2]]
    elif ne[0] == "someof" and isinstance(ne[1], tuple) and ne[1][0] == "agg" and ne[1][1] == "adt" and ne[1][2] in ("Option::Some", "Result::Ok") and len(ne[1][3]) == 1:
        ne = ne[1][3][0]
    r = fn(ne)
    return ne if r is None else r


def send_fields(msg):
    """(variant, payload) of a message expression."""
    if msg[0] == "agg" and msg[1] == "adt" and msg[2].startswith("Message::"):
        variant = msg[2].split("::")[1]
        payload = msg[3][0] if msg[3] else None
        while payload is not None and payload[0] == "someof" and payload[1][0] == "agg" and payload[1][1] == "closure":
            payload = payload[1]
        return variant, payload
    if msg[0] == "param":
        return "INCOMING", msg
    return "UNKNOWN", msg


class Body:
    def __init__(self, prog, raw):
        self.prog = prog
        self.raw = raw
        self.id = raw["id"]
        self.kind = raw["kind"]
        self.parent = raw["parent"]
        self.span = raw["span"]
        self.arg_count = raw["arg_count"]
        self.blocks = {b["id"]: b for b in raw["blocks"]}
        self.locals = {l["l"]: l for l in raw["locals"]}
        self.captures = raw.get("captures", [])
        self.file = loc_of(raw["span"]).rsplit(":", 2)[0]
        self.tracing_prov = own_file(raw["span"]).startswith("dep:tracing")
        self._defs = None
        self.snapshots = set()
        self._origin_cache = {}
        self._in_progress = set()
        self.flag_locals = None
        self.place_stores = []   # (bb, stmt_idx, lhs place, rvalue)
        self.effects = {}        # bb -> Effect (terminator) ; statement effects in stmt_effects
        self.stmt_effects = {}   # (bb, idx) -> Effect
        self._scan()

    # -------- definitions
    def _scan(self):
        defs = {}
        for bid, b in self.blocks.items():
            if b["cleanup"]:
                continue
            for i, st in enumerate(b["stmts"]):
                if "lhs" not in st:
                    continue
                lhs = st["lhs"]
                if not lhs["p"]:
                    defs.setdefault(lhs["l"], []).append(("stmt", bid, i, st["rv"]))
                else:
                    self.place_stores.append((bid, i, lhs, st["rv"], st["s"]))
            t = b["term"]
            if t["k"] == "call":
                d = t["dest"]
                if not d["p"]:
                    defs.setdefault(d["l"], []).append(("call", bid, None, t))
            elif t["k"] == "yield":
                d = t["resume_arg"]
                if not d["p"]:
                    defs.setdefault(d["l"], []).append(("yield", bid, None, t))
        self._defs = defs
        # flag locals: bools only ever assigned constants (drop flags and the like)
        fl = set()
        for l, ds in defs.items():
            if self.locals[l]["ty"] != "bool":
                continue
            if all(k == "stmt" and rv["k"] == "use" and "const" in rv["o"] for (k, _, _, rv) in ds) and len(ds) > 1:
                fl.add(l)
        self.flag_locals = fl

    def is_handler(self):
        """A closure whose (single) argument is a Message."""
        return self.kind == "closure" and self.arg_count == 2 and "msg" in self.locals[2]["flags"]

    # -------- origins
    def origin_local(self, l):
        if l in self._origin_cache:
            return self._origin_cache[l]
        if l in self._in_progress:
            return ("unknown", "cycle:_%d" % l)
        self._in_progress.add(l)
        try:
            if 1 <= l <= self.arg_count:
                if l == 1 and self.kind in ("closure", "coroutine"):
                    e = ("self", self.id)
                else:
                    e = ("param", self.id, l)
                # parameters may also be re-assigned (coroutine resume arg); ignore
            else:
                ds = self._defs.get(l, [])
                if not ds:
                    e = ("unknown", "undef:_%d" % l)
                elif len(ds) == 1:
                    e = self._def_expr(ds[0])
                    if ds[0][0] == "stmt" and ds[0][3]["k"] in ("use", "binop", "unop", "cast") and e[0] not in ("phi", "flag") and self.locals[l]["ty"] in SCALAR_TYS \
                            and any(x[0] == "phi" and len(x) > 2 for x in walk(e)):
                        # `let slot = current + 1;` with `current` re-assigned later: the value is the one `current` had when this
                        # statement ran, not the one it has where `slot` is used - a snapshot, resolved through its own `set` event
                        self.snapshots.add(l)
                        e = ("phi", (e,), "%s|%d" % (self.id, l))
                else:
                    if l in self.flag_locals:
                        e = ("flag", self.id, l)
                    else:
                        es = []
                        for d in ds:
                            x = self._def_expr(d)
                            if x not in es:
                                es.append(x)
                        e = es[0] if len(es) == 1 else ("phi", tuple(es), "%s|%d" % (self.id, l))
            self._origin_cache[l] = e
            return e
        finally:
            self._in_progress.discard(l)

    def mutable_saved_slots(self):
        """Coroutine state slots written by at least two different statements (a task-local variable that is updated, like a
        counter): reads of such a slot into a local are versioned by their statement, because the slot changes over time."""
        if getattr(self, "_mut_saved", None) is None:
            self._mut_saved = set()
            if self.kind == "coroutine":
                cnt = {}
                for (bid, i, lhs, rv, s) in self.place_stores:
                    if rv["k"] == "setdiscr":
                        continue
                    pe = self.place_expr(lhs)
                    if pe[0] == "saved":
                        cnt.setdefault(pe, set()).add((bid, i))
                self._mut_saved = {pe for pe, st in cnt.items() if len(st) >= 2}
        return self._mut_saved

    def versioned_read(self, rv, bid, idx):
        """('ldsaved', slot, (body, bb, stmt)) if the statement copies a mutable saved slot into a local."""
        if self.kind != "coroutine" or rv["k"] != "use":
            return None
        pl = rv["o"].get("copy") or rv["o"].get("move")
        if pl is None or not pl["p"]:
            return None
        pe = self.place_expr(pl)
        if pe[0] == "saved" and pe in self.mutable_saved_slots():
            return ("ldsaved", pe, (self.id, bid, idx))
        return None

    def _def_expr(self, d):
        kind, bid, idx, x = d
        if kind == "stmt":
            vr = self.versioned_read(x, bid, idx)
            if vr is not None:
                return vr
            return self.rvalue_expr(x, (self.id, bid))
        if kind == "call":
            return self.call_expr(x, (self.id, bid))
        return ("unknown", "yield")

    def place_expr(self, p):
        e = self.origin_local(p["l"])
        for el in p["p"]:
            e = self._project(e, el)
        return e

    def _project(self, e, el):
        if el == "*":
            return e
        if isinstance(el, list):
            k = el[0]
            if k == "f":
                i = el[1]
                if e[0] == "self":
                    if self.kind == "coroutine":
                        # Pin<&mut Coroutine>.0 is the coroutine state itself
                        return ("corstate", self.id)
                    return ("upvar", e[1], i)
                if e[0] == "corstate":
                    return ("upvar", self.id, i)
                if e[0] == "downcast" and e[1][0] == "corstate":
                    return ("saved", self.id, e[2], i)
                if e[0] == "agg" and e[1] in ("tuple", "adt", "closure", "coroutine", "array") and i < len(e[3]) and e[1] != "adt":
                    return e[3][i]
                if e[0] == "agg" and e[1] == "adt" and i < len(e[3]):
                    return e[3][i]
                if e[0] == "binop" and e[1].endswith("WithOverflow"):
                    if i == 0:
                        return ("binop", e[1][:-len("WithOverflow")], e[2], e[3])
                    return ("overflowed", e)
                if e[0] == "downcast" and e[2] in ("Some", "Ok") and i == 0:
                    x = e[1]
                    if x[0] == "call" and x[2] == "std::iter::Iterator::next" and x[3]:
                        ch = self.chain_elem(x[3][0], x[1])
                        if ch is not None:
                            return ch[0]
                    if x[0] == "agg" and x[1] == "adt" and x[2] in ("Option::Some", "Result::Ok") and len(x[3]) == 1:
                        return x[3][0]      # the payload of a Some / Ok built right here (an inlined helper's `Some(error)` argument)
                    return ("someof", e[1])
                return ("field", e, i)
            if k == "d":
                name = el[1] if el[1] else str(el[2])
                if e[0] == "corstate":
                    return ("downcast", e, name)
                return ("downcast", e, name)
            if k == "i":
                return ("index", e, self.origin_local(el[1]))
            return ("field", e, str(el))
        return e

    # -------- lazy iterator chains over a slice (`xs.iter().enumerate().filter(c1).filter_map(c2)`)
    CHAIN_PURE = ("std::ops::Deref::deref", "std::clone::Clone::clone", "std::cmp::PartialEq::eq", "std::cmp::PartialEq::ne",
                  "std::cmp::PartialOrd::lt", "std::cmp::PartialOrd::le", "std::cmp::PartialOrd::gt", "std::cmp::PartialOrd::ge",
                  "std::option::Option::<T>::as_ref", "std::option::Option::<T>::cloned", "std::option::Option::<T>::is_some",
                  "std::option::Option::<T>::is_none", "std::sync::Arc::<T, A>::ptr_eq")

    def _pure_closure_ret(self, cdef, arg):
        """Return expression of a closure that is one straight line of pure calls (loads, clones, comparisons), with its
        argument replaced by `arg`; None if the closure is anything else."""
        cb = self.prog.bodies.get(cdef)
        if cb is None or cb.kind != "closure" or cb.arg_count != 2:
            return None
        for blk in cb.blocks.values():
            if blk["cleanup"]:
                continue
            t = blk["term"]
            if t["k"] in ("switch", "yield", "assert"):
                return None
            if t["k"] == "call":
                d = t["callee"].get("def") or ""
                m = ATOMIC_RE.match(d)
                m2 = ARCSWAP_RE.match(d)
                if not (d in self.CHAIN_PURE or (m and m.group(1) == "load") or (m2 and m2.group(1) in ("load", "load_full"))):
                    return None
        r = cb.origin_local(0)
        par = ("param", cdef, 2)
        return rewrite(r, lambda x: arg if x == par else None)

    def chain_elem(self, it, site):
        """For `next(it)` with `it` a chain of enumerate / filter / filter_map over a slice: (element expression, guards that
        hold when an element is produced [(cond, switch value)], the slice).  The index is spelled like the loop variable of
        `for j in 0..xs.len()`, which is the shape the loop lemmas know.  None: not such a chain (nothing is assumed)."""
        if it[0] != "call" or not it[3]:
            return None
        d = it[2]
        if d == "std::iter::Iterator::enumerate" and len(it[3]) == 1:
            xs = it[3][0]
            if xs[0] == "call" and (xs[2].startswith("std::iter::") or xs[2].startswith("core::iter::")):
                return None         # enumerate over another adaptor (skip, rev, take, zip, ..): positions are not indices
            j = ("someof", ("call", site, "std::iter::Iterator::next",
                            (("agg", "adt", "Range::Range", (("const", "usize", "0_usize", 0), ("call", it[1], "<[T]>::len", (xs,)))),)))
            return (("agg", "tuple", "", (j, ("index", xs, j))), [], xs)
        if d == "std::iter::Iterator::map" and len(it[3]) == 2:
            inner = self.chain_elem(it[3][0], site)
            c = it[3][1]
            if inner is None or not (c[0] == "agg" and c[1] == "closure"):
                return None
            r = self._pure_closure_ret(c[2], inner[0])
            if r is None:
                return None
            self.prog.chain_closures.add(c[2])
            return (r, inner[1], inner[2])
        if d in ("std::iter::Iterator::filter", "std::iter::Iterator::filter_map") and len(it[3]) == 2:
            inner = self.chain_elem(it[3][0], site)
            c = it[3][1]
            if inner is None or not (c[0] == "agg" and c[1] == "closure"):
                return None
            elem, guards, xs = inner
            r = self._pure_closure_ret(c[2], elem)
            if r is None:
                return None
            self.prog.chain_closures.add(c[2])
            if d.endswith("::filter"):
                return (elem, guards + [(r, 1)], xs)
            return (("someof", r), guards + [(("discr", r), 1)], xs)
        return None

    def operand_expr(self, o):
        if "copy" in o:
            return self.place_expr(o["copy"])
        if "move" in o:
            return self.place_expr(o["move"])
        c = o["const"]
        if "closure" in c:
            return ("agg", "closure", c["closure"], ())
        if "fn" in c:
            return ("fnitem", c["fn"])
        iv = int(c["int"]) if "int" in c else None
        return ("const", c["ty"], c["v"], iv)

    def rvalue_expr(self, rv, site):
        k = rv["k"]
        if k == "use":
            return self.operand_expr(rv["o"])
        if k in ("ref", "rawptr"):
            return self.place_expr(rv["p"])
        if k == "cast":
            e = self.operand_expr(rv["o"])
            ck = rv["ck"]
            if ck.startswith("ptrcoerce") or ck in ("Transmute", "PtrToPtr", "Subtype"):
                return e
            return ("cast", e)
        if k == "binop":
            return ("binop", rv["op"], self.operand_expr(rv["a"]), self.operand_expr(rv["b"]))
        if k == "unop":
            return ("unop", rv["op"], self.operand_expr(rv["o"]))
        if k == "discr":
            return ("discr", self.place_expr(rv["p"]))
        if k == "agg":
            ops = tuple(self.operand_expr(o) for o in rv["ops"])
            ak = rv["ak"]
            if ak == "adt":
                name = rv["adt"].split("::")[-1] + "::" + rv["variant"]
                if "vi" in rv:
                    VARIANT_INDEX[name] = rv["vi"]
                if rv["adt"] == "core::Callbag" and len(ops) == 1:
                    # the newtype around the boxed handler is transparent, like Callbag::from / Callbag::deref (CEN-core)
                    return ops[0]
                return ("agg", "adt", name, ops)
            if ak in ("closure", "coroutine"):
                return ("agg", ak, rv["def"], ops)
            return ("agg", ak, "", ops)
        if k == "repeat":
            return ("agg", "array", "repeat", (self.operand_expr(rv["o"]),))
        return ("unknown", k)

    def call_expr(self, t, site):
        c = t["callee"]
        m0 = ATOMIC_RE.match(c.get("def") or "")
        if m0 and m0.group(1) in ("compare_exchange", "compare_exchange_weak") and t["args"]:
            # only the cell: the expected / new operands are not part of the result's identity (and evaluating them here would make
            # the origin of a retry loop's variable cyclic)
            return ("rmw", self.operand_expr(t["args"][0]), m0.group(1), ("unit",), site)
        args = tuple(self.operand_expr(a) for a in t["args"])
        if "def" not in c:
            return ("call", site, "<indirect>", args)
        d = c["def"]
        if d == "std::iter::Iterator::map" and len(args) == 2 and args[1][0] == "agg" and args[1][1] == "closure" \
                and args[0][0] == "call" and self.chain_elem(args[0], site) is not None:
            return ("call", site, d, args)     # a projection inside a lazy chain over a slice: chain_elem applies the closure
        if d == "std::iter::Iterator::map" and len(args) == 2 and args[0][0] == "agg" and args[0][2].startswith("Range::"):
            return ("call", site, d, args)     # `(0..n).map(|_| Cell::new()).collect()`: an allocation of n cells at this site, not a view of the range
        if d in ALIAS_CALLEES and len(args) > ALIAS_CALLEES[d]:
            return args[ALIAS_CALLEES[d]]
        if d == "std::clone::Clone::clone":
            st = c["ga"][0] if c.get("ga") else ""
            if st.startswith("std::sync::Arc<") or st.startswith("&"):
                return args[0]
            if st.startswith("core::Message<"):
                return args[0]        # a clone of a message is the same message as far as the protocol goes
            return ("call", site, "Clone::clone", args)
        if d == "std::convert::From::from":
            st = c["ga"][0] if c.get("ga") else ""
            # Arc<T>: From<Box<T>> / Callbag: From<F> / Vec<T>: From<Box<[T]>>
            if st.startswith("std::sync::Arc<") or st.startswith("core::Callbag<") or st.startswith("std::vec::Vec<"):
                return args[0]
            return ("call", site, d, args)
        if d in UNWRAP_CALLEES:
            return ("someof", args[0])
        m = ATOMIC_RE.match(d)
        if m:
            op = m.group(1)
            if op == "load":
                return ("aload", args[0], site)
            if op in ("new",):
                return ("call", site, d, args)
            if op in ("store",):
                return ("unit",)
            operand = args[1] if len(args) > 1 else ("unknown", "noarg")
            if op in ("compare_exchange", "compare_exchange_weak"):
                # the value a CAS returns is identified by its site; leaving the expected value out keeps the origin of a retry
                # loop's variable (`current = actual`) acyclic
                operand = ("unit",)
            return ("rmw", args[0], op, operand, site)
        m = ARCSWAP_RE.match(d)
        if m:
            op = m.group(1)
            if op in ("load", "load_full", "swap", "rcu"):
                return ("cellload", args[0], site)      # swap and rcu hand back what the cell held before
            if op in ("store",):
                return ("unit",)
            return ("call", site, d, args)
        if d in ("std::sync::RwLock::<T>::write", "std::sync::RwLock::<T>::read", "std::sync::Mutex::<T>::lock"):
            return ("lock", args[0], site)
        if d == "std::ops::Index::index" or d == "std::ops::IndexMut::index_mut":
            return ("index", args[0], args[1])
        return ("call", site, d, args)


class Program:
    def __init__(self, path):
        with open(path) as f:
            self.raw = json.load(f)
        self.features = self.raw["features"]
        self.config = "tracing" if "tracing" in self.features else "default"
        self.inlined = []
        if not os.environ.get("CB_NO_INLINE"):
            import inline
            self.inlined = inline.inline_local_calls(self.raw)
        self.inlined_closures = set(self.raw.get("inlined_closures", []))
        self.chain_closures = set()     # pure closures of recognised lazy iterator chains (Body.chain_elem), absorbed into the loop
        self.statics = self.raw["statics"]
        self.bodies = {}
        for rb in self.raw["bodies"]:
            b = Body(self, rb)
            self.bodies[b.id] = b
        # closure construction sites
        self.closure_sites = {}   # def -> (body, bb, stmt_idx, ops)
        for b in self.bodies.values():
            for bid, blk in b.blocks.items():
                if blk["cleanup"]:
                    continue
                for i, st in enumerate(blk["stmts"]):
                    rv = st.get("rv")
                    if rv and rv["k"] == "agg" and rv["ak"] in ("closure", "coroutine"):
                        self.closure_sites.setdefault(rv["def"], []).append((b.id, bid, i, rv["ops"]))
        self._link_cache = {}

    def body(self, bid):
        return self.bodies[bid]

    def children(self, bid):
        return [b for b in self.bodies.values() if b.parent == bid and b.kind in ("closure", "coroutine")]

    def ancestors(self, bid):
        out = []
        b = self.bodies.get(bid)
        while b is not None and b.parent in self.bodies:
            out.append(b.parent)
            b = self.bodies[b.parent]
        return out

    # -------- linking: replace upvars by the origin of the capture operand at the construction site
    def link(self, e, depth=0):
        if not isinstance(e, tuple) or not e or depth > 60:
            return e
        key = e
        if key in self._link_cache:
            return self._link_cache[key]
        t = e[0]
        if t == "upvar":
            sites = self.closure_sites.get(e[1], [])
            if len(sites) == 1:
                pb, bb, i, ops = sites[0]
                if e[2] < len(ops):
                    r = self.link(self.bodies[pb].operand_expr(ops[e[2]]), depth + 1)
                else:
                    r = e
            else:
                r = e
        elif t in ("param", "self", "const", "saved", "flag", "fnitem", "unit", "unknown", "corstate"):
            r = e
        else:
            r = tuple(self._link_part(x, depth) for x in e)
            r = self._simplify(r)
        self._link_cache[key] = r
        return r

    def _link_part(self, x, depth):
        if isinstance(x, tuple) and x and isinstance(x[0], str):
            return self.link(x, depth + 1)
        if isinstance(x, tuple):
            return tuple(self._link_part(y, depth) for y in x)
        return x

    def _simplify(self, e):
        # field of a linked aggregate
        if e[0] == "field" and isinstance(e[1], tuple) and e[1][0] == "agg" and isinstance(e[2], int) and e[2] < len(e[1][3]):
            return e[1][3][e[2]]
        # the payload of a Some / Ok this very code built
        if e[0] == "someof" and isinstance(e[1], tuple) and e[1][0] == "agg" and e[1][1] == "adt" and e[1][2] in ("Option::Some", "Result::Ok") and len(e[1][3]) == 1:
            return e[1][3][0]
        return e


# ============================================================================= effects

class Effect:
    __slots__ = ("kind", "site", "loc", "s", "d", "tracing")
    def __init__(self, kind, site, s, **d):
        self.kind = kind
        self.site = site
        self.s = s
        self.loc = loc_of(s)
        self.d = d
        self.tracing = False
    def __getattr__(self, k):
        try:
            return self.d[k]
        except KeyError:
            raise AttributeError(k)
    def get(self, k, default=None):
        return self.d.get(k, default)
    def __repr__(self):
        return "<%s %s %s>" % (self.kind, self.loc, {k: (show(v) if isinstance(v, tuple) else v) for k, v in self.d.items() if k not in ("raw",)})


PURE_STD_PREFIXES = (
    "std::sync::Arc::", "std::boxed::Box::", "std::vec::Vec::", "std::option::Option::", "std::result::Result::",
    "std::iter::", "std::slice::", "std::clone::Clone::clone", "std::default::Default::default", "std::fmt::",
    "std::cmp::", "std::convert::", "std::ops::Deref", "std::ops::Index", "std::ops::Range", "std::mem::",
    "std::pin::Pin", "std::future::", "std::task::", "std::ptr::", "std::marker::", "std::any::", "std::sync::atomic::Ordering",
    "std::ops::Try", "std::ops::FromResidual", "std::ops::ControlFlow", "std::ops::Not", "std::borrow::",
    "std::string::", "std::alloc::", "core::", "alloc::", "std::intrinsics::", "std::hint::", "std::num::",
    "std::time::Duration", "std::sync::RwLock::<T>::new", "std::sync::Mutex::<T>::new", "std::ops::Drop", "std::ops::function::",
    "std::sync::PoisonError", "std::sync::RwLockWriteGuard", "std::sync::RwLockReadGuard", "std::sync::MutexGuard",
    "std::thread::", "std::error::",
)

def classify_call(prog, body, bid, blk):
    """Classify the call terminator of a block into an Effect."""
    t = blk["term"]
    s = blk["ts"]
    site = (body.id, bid)
    c = t["callee"]
    args = [body.operand_expr(a) for a in t["args"]]
    L = prog.link
    if "def" not in c:
        return Effect("indirect", site, s, target=L(body.operand_expr(c["indirect"])), args=[L(a) for a in args])
    d = c["def"]
    crate = c.get("crate", "")
    ga = c.get("ga", [])
    eff = None
    is_alias = d in ALIAS_CALLEES
    if d == "std::clone::Clone::clone" and ga and (ga[0].startswith("std::sync::Arc<") or ga[0].startswith("&") or ga[0].startswith("core::Message<")):
        is_alias = True
    if d == "std::convert::From::from" and ga and (ga[0].startswith("std::sync::Arc<") or ga[0].startswith("core::Callbag<") or ga[0].startswith("std::vec::Vec<")):
        is_alias = True
    if is_alias and not c.get("msg_call"):
        closures = [L(a)[2] for a in args if L(a)[0] == "agg" and L(a)[1] == "closure"]
        eff = Effect("alias", site, s, callee=d, args=[L(a) for a in args], closures=closures,
                     msg_clone=bool(ga and ga[0].startswith("core::Message<") and d == "std::clone::Clone::clone"))
    elif c.get("msg_call"):
        recv = L(args[0])
        tup = L(args[1])
        msg = tup[3][0] if tup[0] == "agg" and tup[1] == "tuple" and tup[3] else tup
        variant, payload = send_fields(msg)
        eff = Effect("send", site, s, recv=recv, variant=variant, payload=payload, msg=msg, self_kind=c.get("self_kind"))
    else:
        m = ATOMIC_RE.match(d)
        m2 = ARCSWAP_RE.match(d)
        if m and m.group(1) != "new":
            op = m.group(1)
            cell = L(args[0])
            ords = [a[2].split("::")[-1] for a in args[1:] if a[0] in ("agg",) and "Ordering" in a[2]] + \
                   [a[2].split("::")[-1] for a in args[1:] if a[0] == "const" and "Ordering" in str(a[1])]
            operand = None
            if op not in ("load",):
                operand = L(args[1]) if len(args) > 1 else None
            closure = None
            if op == "fetch_update":
                for a in args:
                    la = L(a)
                    if la[0] == "agg" and la[1] == "closure":
                        closure = la[2]
            operand2 = L(args[2]) if op in ("compare_exchange", "compare_exchange_weak") and len(args) > 2 else None
            eff = Effect("atomic", site, s, op=op, cell=cell, operand=operand, operand2=operand2, orderings=ords, closure=closure)
        elif m2 and m2.group(1) not in ("from", "new", "from_pointee", "default", "empty"):
            op = m2.group(1)
            cell = L(args[0])
            val = L(args[1]) if len(args) > 1 else None
            closure = None
            if val is not None and val[0] == "agg" and val[1] == "closure":
                closure = val[2]
            swapped = False
            if op == "swap":
                op, swapped = "store", True             # a swap is a store whose result is the previous content
            eff = Effect("cell", site, s, op=op, cell=cell, value=val, closure=closure, swapped=swapped)
        elif d in ("std::sync::RwLock::<T>::write", "std::sync::RwLock::<T>::read", "std::sync::Mutex::<T>::lock"):
            eff = Effect("lock", site, s, op=d.split("::")[-1], cell=L(args[0]))
        elif d in PANIC_CALLEES:
            msg = None
            eff = Effect("panic", site, s, pk="panic", msg=msg)
        elif d in UNWRAP_CALLEES:
            msg = None
            if len(args) > 1 and args[1][0] == "const":
                msg = args[1][2]
            eff = Effect("panic", site, s, pk=d.split("::")[-1], msg=msg, subject=L(args[0]), may_return=True)
        elif d in ("std::ops::Fn::call", "std::ops::FnMut::call_mut", "std::ops::FnOnce::call_once"):
            sk = c.get("self_kind")
            target = L(args[0])
            if sk == "param":
                a = L(args[1])
                uargs = list(a[3]) if a[0] == "agg" and a[1] == "tuple" else [a]
                eff = Effect("usercall", site, s, fn=target, args=uargs)
            elif sk == "closure" and c.get("res_local"):
                eff = Effect("thunk", site, s, target=c.get("res") or c.get("self_closure"), fn=target)
            else:
                # dyn Fn(): resolve through the value's origin to a local closure if possible
                if target[0] == "agg" and target[1] == "closure":
                    eff = Effect("thunk", site, s, target=target[2], fn=target, via="dyn")
                else:
                    eff = Effect("indirect", site, s, target=target, args=[L(a) for a in args[1:]])
        elif d == "std::iter::Iterator::next":
            st = ga[0] if ga else ""
            it = L(args[0])
            if "IntoIterator>::IntoIter" in st or c.get("self_kind") == "param":
                eff = Effect("iternext", site, s, iter=it)
            else:
                eff = Effect("other", site, s, callee=d, args=[L(a) for a in args])
        elif d == "async_nursery::NurseExt::nurse" or d == "async_nursery::Nurse::nurse":
            task = [x for a in args for x in walk(L(a)) if x[0] == "agg" and x[1] == "coroutine"]
            eff = Effect("spawn", site, s, task=task[0][2] if task else None, nursery=L(args[0]))
        elif d == "async_executors::Timer::sleep":
            eff = Effect("sleep", site, s, timer=L(args[0]), period=L(args[1]))
        elif d == "std::future::Future::poll":
            eff = Effect("poll", site, s, fut=L(args[0]))
        elif c.get("res_local") and c.get("res_kind") == "item":
            eff = Effect("localcall", site, s, target=c["res"], callee=d, args=[L(a) for a in args])
        elif c.get("self_kind") == "param" or (ga and re.match(r"^<\w+ as ", ga[0] or "")):
            # trait method on a user type (Clone of the seed / closure / datum, IntoIterator, ...)
            eff = Effect("usertrait", site, s, callee=d, args=[L(a) for a in args], self_ty=ga[0] if ga else "")
        else:
            closures = [L(a)[2] for a in args if L(a)[0] == "agg" and L(a)[1] == "closure"]
            kind = "hocall" if closures else "other"
            eff = Effect(kind, site, s, callee=d, crate=crate, args=[L(a) for a in args], closures=closures)
    if crate in TRACING_CRATES or own_file(s).startswith("dep:tracing") or own_file(s).startswith("dep:log"):
        eff.tracing = True
    return eff


def body_effects(prog, body):
    """All effects of a body: bb -> Effect for call/assert terminators; (bb, i) -> Effect for place stores."""
    if body.effects or body.stmt_effects:
        return
    for bid, blk in body.blocks.items():
        if blk["cleanup"]:
            continue
        t = blk["term"]
        if t["k"] == "call":
            body.effects[bid] = classify_call(prog, body, bid, blk)
        elif t["k"] == "assert":
            e = Effect("panic", (body.id, bid), blk["ts"], pk="assert:" + t["msg"], msg=None,
                       subject=prog.link(body.operand_expr(t["cond"])), may_return=True)
            if own_file(blk["ts"]).startswith("dep:tracing"):
                e.tracing = True
            body.effects[bid] = e
    for (bid, i, lhs, rv, s) in body.place_stores:
        base = prog.link(body.place_expr(lhs))
        if rv["k"] == "setdiscr":
            val = ("setdiscr", rv["vi"])
        else:
            val = prog.link(body.rvalue_expr(rv, (body.id, bid)))
        e = Effect("pstore", (body.id, bid), s, place=base, value=val)
        if own_file(s).startswith("dep:tracing"):
            e.tracing = True
        body.stmt_effects[(bid, i)] = e


# ============================================================================= paths

class Path:
    __slots__ = ("events", "end", "blocks")
    def __init__(self, events, end, blocks):
        self.events = events   # list of ("eff", Effect) | ("br", cond_expr, value, site) | ("mk", def, site) | ("yield", site)
        self.end = end         # 'return' | 'diverge' | 'cut'
        self.blocks = blocks
    def effects(self, kind=None):
        return [e[1] for e in self.events if e[0] == "eff" and (kind is None or e[1].kind == kind)]



VISIBLE_KINDS = ("send", "pstore", "usercall", "iternext", "spawn", "sleep", "indirect", "lock", "localcall", "poll")

def effect_visible(prog, e):
    """Is this effect part of the protocol skeleton (as opposed to tau)?"""
    if e.kind in ("alias", "other", "hocall", "usertrait"):
        return False
    if e.kind == "atomic":
        return True
    if e.kind == "cell":
        return True
    if e.kind == "thunk":
        tb = prog.bodies.get(e.target)
        return not (tb is not None and tb.tracing_prov)
    if e.kind == "panic":
        return not e.tracing
    return e.kind in VISIBLE_KINDS


def ipdoms(body):
    """Immediate post-dominators over the non-cleanup CFG (virtual exit = -1)."""
    if getattr(body, "_ipdom", None) is not None:
        return body._ipdom
    nodes = [b for b, blk in body.blocks.items() if not blk["cleanup"]]
    succ = {}
    for b in nodes:
        ss = [x for x in body.blocks[b]["term"]["succ"] if x in body.blocks and not body.blocks[x]["cleanup"]]
        succ[b] = ss if ss else [-1]
    succ[-1] = []
    alln = set(nodes) | {-1}
    pdom = {n: set(alln) for n in alln}
    pdom[-1] = {-1}
    changed = True
    order = sorted(nodes, reverse=True)
    while changed:
        changed = False
        for n in order:
            new = None
            for x in succ[n]:
                new = set(pdom[x]) if new is None else (new & pdom[x])
            new = (new or set()) | {n}
            if new != pdom[n]:
                pdom[n] = new
                changed = True
    ip = {}
    for n in nodes:
        cands = pdom[n] - {n}
        best = None
        for c in cands:
            # the immediate post-dominator is the candidate post-dominated by no... i.e. whose pdom set is the largest
            if best is None or len(pdom[c]) > len(pdom[best]):
                best = c
        ip[n] = best
    body._ipdom = ip
    return ip


def region_between(body, start_succs, join):
    seen = set()
    stack = list(start_succs)
    while stack:
        b = stack.pop()
        if b == join or b in seen or b not in body.blocks or body.blocks[b]["cleanup"]:
            continue
        seen.add(b)
        stack.extend(body.blocks[b]["term"]["succ"])
    return seen


def region_is_tau(prog, body, region):
    for b in region:
        blk = body.blocks[b]
        if blk["term"]["k"] in ("return", "yield"):
            return False
        e = body.effects.get(b)
        if e is not None and effect_visible(prog, e) and not e.tracing:
            return False
        if e is not None and not e.tracing and e.kind in ("usertrait", "iternext", "usercall", "hocall"):
            return False      # user code evaluated inside a tracing-internal branch is not tau
        for (bb, i), se in body.stmt_effects.items():
            if bb == b and not se.tracing:
                return False
    return True


def flag_diamond(body, t):
    """switch on a drop flag whose one side only drops and re-joins the other: return the join target."""
    if len(t["targets"]) != 1:
        return None
    a = t["targets"][0][1]
    b = t["otherwise"]
    for (x, y) in ((a, b), (b, a)):
        cur = y
        for _ in range(6):
            blk = body.blocks.get(cur)
            if blk is None or blk["cleanup"]:
                break
            k = blk["term"]["k"]
            only_flags = all(("lhs" not in st) or (not st["lhs"]["p"] and st["lhs"]["l"] in body.flag_locals) for st in blk["stmts"])
            if k in ("drop", "goto") and only_flags:
                nxt = blk["term"]["succ"][0]
                if nxt == x:
                    return x
                cur = nxt
                continue
            break
    return None


def message_discr(body, e):
    """Is e the discriminant of the handler's incoming message?"""
    return e[0] == "discr" and e[1] == ("param", body.id, 2)


SCALAR_TYS = ("usize", "u8", "u16", "u32", "u64", "u128", "isize", "i8", "i16", "i32", "i64", "i128", "bool")
VARIANT_INDEX = {"Option::None": 0, "Option::Some": 1, "Result::Ok": 0, "Result::Err": 1}     # aggregate name -> variant index (filled from the facts)
STEP_LIMIT = 300000        # block visits per arm enumeration; the largest arm of the pinned tree needs 481 (40 paths) at thorough depth
STATS = {}


def resolve_now(events, e):
    """The value of an expression at this point of a path: multi-assigned locals (and snapshots) it mentions are replaced by
    their latest assignment so far, so that a later re-assignment cannot change what was stored."""
    if not any(x[0] == "phi" and len(x) > 2 for x in walk(e)):
        return e
    last = {}
    for ev in events:
        if ev[0] == "set":
            last[ev[1]] = ev[2]
    return rewrite(e, lambda x: last.get(x[2]) if x[0] == "phi" and len(x) > 2 and x[2] in last else None)


def enumerate_paths(prog, body, variant=None, entry=0, max_visits=2, inline=1, limit=20000, corstate=None):
    """All paths through the (arm of the) body.  variant: Message variant name selecting the arm, or None.
    Branches on compiler-generated flag locals are resolved by constant propagation along the path."""
    body_effects(prog, body)
    out = []
    vidx = VARIANTS.index(variant) if variant else None
    cor = body.kind == "coroutine"

    steps = [0]

    def go(bid, env, visits, events, blocks, last_state):
        if len(out) >= limit:
            raise AnalysisError("path limit exceeded in %s" % body.id)
        while True:
            steps[0] += 1
            STATS["steps"] = STATS.get("steps", 0) + 1
            if steps[0] > STEP_LIMIT:
                raise AnalysisError("step limit exceeded in %s (the arm's paths are too many to enumerate: fail closed)" % body.id)
            if visits.get(bid, 0) >= max_visits:
                out.append(Path(events, "cut", blocks))
                return
            visits = dict(visits)
            visits[bid] = visits.get(bid, 0) + 1
            blocks = blocks + [bid]
            blk = body.blocks[bid]
            for i, st in enumerate(blk["stmts"]):
                if "lhs" not in st:
                    continue
                lhs = st["lhs"]
                rv = st["rv"]
                if not lhs["p"] and lhs["l"] in body.flag_locals and rv["k"] == "use" and "const" in rv["o"]:
                    env = dict(env)
                    env[lhs["l"]] = rv["o"]["const"].get("int", rv["o"]["const"].get("v"))
                    continue
                if rv["k"] == "agg" and rv["ak"] in ("closure", "coroutine"):
                    events = events + [("mk", rv["def"], (body.id, bid))]
                if cor and not lhs["p"] and rv["k"] == "use":
                    vr = body.versioned_read(rv, bid, i)
                    if vr is not None:
                        events = events + [("ld", vr[2], vr[1])]
                if not lhs["p"] and lhs["l"] == 0 and body.kind != "coroutine":
                    events = events + [("ret", prog.link(body.rvalue_expr(rv, (body.id, bid))))]
                if not lhs["p"] and lhs["l"] not in body.flag_locals and rv["k"] != "setdiscr" and \
                        (len(body._defs.get(lhs["l"], [])) > 1 or (body.origin_local(lhs["l"]) is not None and lhs["l"] in body.snapshots)):
                    events = events + [("set", "%s|%d" % (body.id, lhs["l"]), resolve_now(events, prog.link(body.rvalue_expr(rv, (body.id, bid)))))]
                if rv["k"] == "setdiscr" and cor:
                    last_state = rv["vi"]
                    continue
                if (bid, i) in body.stmt_effects:
                    events = events + [("eff", body.stmt_effects[(bid, i)])]
            t = blk["term"]
            k = t["k"]
            if k == "drop":
                dl = t["p"]["l"]
                dty = body.locals[dl]["ty"]
                if "Guard<" in dty and not t["p"]["p"]:
                    events = events + [("dropguard", dl, dty)]
                bid = t["succ"][0]
                continue
            if k == "goto":
                bid = t["succ"][0]
                continue
            if k == "return":
                if cor and last_state is not None and last_state >= 3:
                    # suspended: resumption re-enters through the state switch of bb0
                    events = events + [("yield", (body.id, bid))]
                    t0 = body.blocks[0]["term"]
                    tgt = None
                    for v, b in t0["targets"]:
                        if v == last_state:
                            tgt = b
                    if tgt is None:
                        out.append(Path(events, "return", blocks))
                        return
                    bid = tgt
                    last_state = None
                    continue
                out.append(Path(events, "return", blocks))
                return
            if k in ("unreachable", "resume", "abort", "coroutine_drop"):
                out.append(Path(events, "unreachable", blocks))
                return
            if k == "call" or k == "tailcall":
                eff = body.effects.get(bid)
                if eff is not None:
                    if eff.kind == "thunk" and inline > 0 and eff.target in prog.bodies:
                        sub = enumerate_paths(prog, prog.bodies[eff.target], None, 0, max_visits, inline - 1, limit)
                        if not t["succ"]:
                            out.append(Path(events + [("eff", eff)], "diverge", blocks))
                            return
                        nxt = t["succ"][0]
                        for sp in sub:
                            ev2 = events + [("eff", eff), ("enter", eff.target)] + sp.events + [("leave", eff.target)]
                            if sp.end == "return":
                                go(nxt, env, visits, ev2, blocks, last_state)
                            elif sp.end in ("diverge", "cut"):
                                out.append(Path(ev2, sp.end, blocks))
                        return
                    events = events + [("eff", eff)]
                if k == "call" and not t["dest"]["p"] and t["dest"]["l"] == 0 and body.kind != "coroutine":
                    events = events + [("ret", prog.link(body.call_expr(t, (body.id, bid))))]
                if k == "call" and not t["dest"]["p"] and len(body._defs.get(t["dest"]["l"], [])) > 1:
                    events = events + [("set", "%s|%d" % (body.id, t["dest"]["l"]), resolve_now(events, prog.link(body.call_expr(t, (body.id, bid)))))]
                if not t["succ"]:
                    out.append(Path(events, "diverge", blocks))
                    return
                bid = t["succ"][0]
                continue
            if k == "assert":
                eff = body.effects.get(bid)
                if eff is not None:
                    events = events + [("eff", eff)]
                bid = t["succ"][0]
                continue
            if k == "yield":
                events = events + [("yield", (body.id, bid))]
                bid = t["succ"][0]
                continue
            if k == "switch":
                do = t["discr"]
                pl = do.get("copy") or do.get("move")
                if pl is None and "const" in do and "int" in do["const"]:
                    cv = int(do["const"]["int"])
                    tgt = t["otherwise"]
                    for v, b in t["targets"]:
                        if v == cv:
                            tgt = b
                    bid = tgt
                    continue
                if pl is not None and not pl["p"] and pl["l"] in body.flag_locals:
                    dj = flag_diamond(body, t)
                    if dj is not None:
                        bid = dj
                        continue
                    val = env.get(pl["l"])
                    if val is not None:
                        val = int(val) if str(val).isdigit() else (1 if val == "true" else 0)
                        tgt = t["otherwise"]
                        for v, b in t["targets"]:
                            if v == val:
                                tgt = b
                        bid = tgt
                        continue
                de = body.operand_expr(do) if pl is None else body.place_expr(pl)
                if cor and bid == 0 and de[0] == "discr" and de[1][0] == "corstate":
                    st = corstate if corstate is not None else 0
                    tgt = t["otherwise"]
                    for v, b in t["targets"]:
                        if v == st:
                            tgt = b
                    bid = tgt
                    continue
                if vidx is not None and message_discr(body, de):
                    tgt = t["otherwise"]
                    for v, b in t["targets"]:
                        if v == vidx:
                            tgt = b
                    bid = tgt
                    continue
                if own_file(blk["ts"]).startswith("dep:tracing") or own_file(blk["ts"]).startswith("dep:log"):
                    j = ipdoms(body).get(bid)
                    if j is not None and j != -1:
                        reg = region_between(body, t["succ"], j)
                        if region_is_tau(prog, body, reg):
                            events = events + [("tau", (body.id, bid))]
                            bid = j
                            continue
                cond = prog.link(de)
                if any((x[0] == "phi" and len(x) > 2) or x[0] == "flag" for x in walk(cond)):
                    # a branch on a multi-assigned local: its value on this path is the last direct assignment seen
                    last = {}
                    for ev in events:
                        if ev[0] == "set":
                            last[ev[1]] = ev[2]
                    depth_res = [0]
                    def _res(x):
                        if x[0] == "phi" and len(x) > 2 and x[2] in last:
                            # the assigned value may itself mention other multi-assigned locals (an Option built from an Option)
                            if depth_res[0] < 6:
                                depth_res[0] += 1
                                try:
                                    return rewrite(last[x[2]], _res)
                                finally:
                                    depth_res[0] -= 1
                            return last[x[2]]
                        if x[0] == "flag" and x[1] == body.id and x[2] in env:
                            # bool locals that only ever hold constants (drop flags, `let done = matches!(..)`) are tracked in env
                            fv = env[x[2]]
                            return ("const", "bool", None, int(fv) if str(fv).isdigit() else (1 if fv == "true" else 0))
                        return None
                    rc = rewrite(cond, _res)
                    if rc[0] == "unop" and rc[1] == "Not" and rc[2][0] == "const" and rc[2][3] is not None:
                        rc = ("const", "bool", None, 0 if rc[2][3] else 1)
                    if rc[0] == "const" and rc[3] is not None:
                        cond = rc
                    elif os.environ.get("CB_RESOLVE_GUARDS", "1") == "1":
                        cond = rc       # the guard as it reads on this path (the lemmas are per path)
                if cond[0] == "const" and cond[3] is not None:
                    tgt = t["otherwise"]
                    for v, b in t["targets"]:
                        if v == cond[3]:
                            tgt = b
                    bid = tgt
                    continue
                if cond[0] == "discr" and cond[1][0] == "agg" and cond[1][1] == "adt" and cond[1][2] in VARIANT_INDEX:
                    # the discriminant of a value this very path built (`end(Some(error))` inlined into the Error arm): decided
                    vi0 = VARIANT_INDEX[cond[1][2]]
                    tgt = t["otherwise"]
                    for v, b in t["targets"]:
                        if v == vi0:
                            tgt = b
                    bid = tgt
                    continue
                seen_t = set()
                alts = [(v, b) for v, b in t["targets"]] + [("otherwise", t["otherwise"])]
                if pl is not None and not pl["p"] and de[0] == "discr":
                    nvar = None
                    for d in body._defs.get(pl["l"], []):
                        if d[0] == "stmt" and d[3]["k"] == "discr" and "nvar" in d[3]:
                            nvar = int(d[3]["nvar"])
                    if nvar is not None:
                        taken = {v for v, _ in t["targets"]}
                        missing = [x for x in range(nvar) if x not in taken]
                        if len(missing) == 1:
                            alts = [(v, b) for v, b in t["targets"]] + [(missing[0], t["otherwise"])]
                INT_TYS = ("usize", "u8", "u16", "u32", "u64", "u128", "isize", "i8", "i16", "i32", "i64", "i128")
                int_switch = (pl is not None and not pl["p"] and body.locals[pl["l"]]["ty"] in INT_TYS and cond[0] not in ("discr", "const"))
                for v, b in alts:
                    if body.blocks[b]["term"]["k"] == "unreachable" and not body.blocks[b]["stmts"]:
                        continue
                    excl = tuple(x for x, _ in t["targets"]) if v == "otherwise" else ()
                    if v == 1 and de[0] == "discr" and de[1][0] == "call" and de[1][2] == "std::iter::Iterator::next" and de[1][3]:
                        ch = body.chain_elem(de[1][3][0], de[1][1])
                        if ch is not None and ch[1]:
                            ev2 = events + [("br", cond, v, excl, (body.id, bid))] + [("br", prog.link(g), gv, (), (body.id, bid)) for g, gv in ch[1]]
                            go(b, env, visits, ev2, blocks, last_state)
                            continue
                    if int_switch:
                        # `match n { 0 => .., _ => .. }` on an integer: the decision is an equality with the arm's constant
                        # (for the catch-all arm: the inequality with the first listed constant)
                        ty = body.locals[pl["l"]]["ty"]
                        k0 = v if v != "otherwise" else t["targets"][0][0]
                        c2 = ("binop", "Eq", cond, ("const", ty, str(k0), int(k0)))
                        go(b, env, visits, events + [("br", c2, 1 if v != "otherwise" else 0, excl, (body.id, bid))], blocks, last_state)
                        continue
                    go(b, env, visits, events + [("br", cond, v, excl, (body.id, bid))], blocks, last_state)
                return
            raise AnalysisError("unhandled terminator %s in %s bb%d" % (k, body.id, bid))

    go(entry, {}, {}, [], [], None)
    return out
