"""lemmas: obligation bookkeeping, predicate normalisation and path primitives (DESIGN.md section 5)."""
import json, os, re, time
from cbcore import *
from model import *

# ----------------------------------------------------------------------------- obligations

class Ob:
    __slots__ = ("lemma", "key", "ok", "detail", "loc", "config", "known")
    def __init__(self, lemma, key, ok, detail, loc, config):
        self.lemma, self.key, self.ok, self.detail, self.loc, self.config = lemma, key, ok, detail, loc, config
        self.known = None
    def as_dict(self):
        return {"lemma": self.lemma, "key": self.key, "ok": self.ok, "detail": self.detail, "loc": self.loc, "config": self.config}


class Ctx:
    """One check run of one property over one or two configurations."""
    def __init__(self, prop_id, tier):
        self.prop = prop_id
        self.tier = tier
        self.obs = []
        self.config = None
        self.model = None
        self.notes = []
        self.floors = {}      # lemma -> minimal instance count (per configuration)
        self.counts = {}      # (config, lemma) -> instances
        self.sites = set()
        self.axioms = set()
        self.assumptions = []

    def use(self, config, model):
        self.config = config
        self.model = model

    def ob(self, lemma, key, ok, detail="", loc=None):
        o = Ob(lemma, key, bool(ok), detail, loc, self.config)
        self.obs.append(o)
        self.counts[(self.config, lemma)] = self.counts.get((self.config, lemma), 0) + 1
        if loc:
            self.sites.add(loc)
        return bool(ok)

    def floor(self, lemma, n):
        self.floors[lemma] = n

    def check_floors(self):
        configs = sorted({c for (c, _) in self.counts} | ({self.config} if self.config else set()))
        for lemma, n in self.floors.items():
            for c in configs:
                got = self.counts.get((c, lemma), 0)
                saved = self.config
                self.config = c
                self.ob("census-floor", "%s:floor" % lemma, got >= n,
                        "lemma %s matched %d instances in config %s; at least %d were confirmed by reading" % (lemma, got, c, n))
                self.config = saved

    def violations(self):
        return [o for o in self.obs if not o.ok]


# ----------------------------------------------------------------------------- predicate normalisation

def lin(e):
    """Linear form of an integer expression: (base_expr or None, offset)."""
    if e[0] == "const":
        return (None, e[3] if e[3] is not None else 0) if e[3] is not None else (e, 0)
    if e[0] == "binop" and e[1] in ("Add", "AddWithOverflow", "AddUnchecked"):
        (b1, o1), (b2, o2) = lin(e[2]), lin(e[3])
        if b2 is None:
            return (b1, o1 + o2)
        if b1 is None:
            return (b2, o1 + o2)
        return (e, 0)
    if e[0] == "binop" and e[1] in ("Sub", "SubWithOverflow", "SubUnchecked"):
        (b1, o1), (b2, o2) = lin(e[2]), lin(e[3])
        if b2 is None:
            return (b1, o1 - o2)
        return (e, 0)
    if e[0] == "cast":
        return lin(e[1])
    if e[0] == "call" and isinstance(e[2], str) and e[2].endswith(("::wrapping_add", "::saturating_add", "::unchecked_add")) and len(e[3]) == 2:
        (b1, o1), (b2, o2) = lin(e[3][0]), lin(e[3][1])
        if b2 is None:
            return (b1, o1 + o2)
        if b1 is None:
            return (b2, o1 + o2)
    return (e, 0)


def truth(value):
    """Truth value of a bool switch edge: value 0 => False, otherwise => True."""
    if value == 0:
        return False
    if value == "otherwise" or value == 1:
        return True
    return None


def norm_pred(cond, value):
    """Normalise a branch decision into an atom.
       ('cmp', L, R, rel, c)  : L - R  rel  c   with rel in '<', '>=', '==', '!='   (L, R linear bases, None = 0)
       ('bool', expr, True|False)
       ('opt', expr, 'some'|'none')
       ('other', cond, value)"""
    tv = truth(value)
    e = cond
    neg = False
    while e[0] == "unop" and e[1] == "Not":
        e = e[2]
        neg = not neg
    if tv is not None and neg:
        tv = not tv
    if e[0] == "binop" and e[1] in ("Lt", "Le", "Gt", "Ge", "Eq", "Ne") and tv is not None:
        (L, a), (R, b) = lin(e[2]), lin(e[3])
        op = e[1]
        # L + a  op  R + b   <=>  L - R  op  b - a
        c = b - a
        if op == "Lt":
            rel, c2 = ("<", c) if tv else (">=", c)
        elif op == "Le":
            rel, c2 = ("<", c + 1) if tv else (">=", c + 1)
        elif op == "Gt":
            rel, c2 = (">=", c + 1) if tv else ("<", c + 1)
        elif op == "Ge":
            rel, c2 = (">=", c) if tv else ("<", c)
        elif op == "Eq":
            rel, c2 = ("==", c) if tv else ("!=", c)
        else:
            rel, c2 = ("!=", c) if tv else ("==", c)
        # canonical orientation: the more dynamic side (an atomic observation, then a closure parameter) goes left
        def rank(x):
            if x is None:
                return 0
            if any(y[0] in ("rmw", "aload") for y in walk(x)):
                return 3
            if x[0] == "param" and "{closure" in str(x[1]):
                return 2
            if x[0] == "const":
                return 0
            return 1
        if rank(R) > rank(L):
            # L - R rel c2   <=>   R - L rel' c2'
            if rel == "<":
                rel, c2 = ">=", -c2 + 1
            elif rel == ">=":
                rel, c2 = "<", -c2 + 1
            else:
                c2 = -c2
            L, R = R, L
        return ("cmp", L, R, rel, c2)
    if e[0] == "discr":
        x = e[1]
        # Option: 0 = None, 1 = Some ; Result: 0 = Ok, 1 = Err ; Poll: 0 = Ready, 1 = Pending
        return ("discr", x, value)
    if e[0] == "call" and e[2].endswith("::is_none") and tv is not None:
        return ("opt", e[3][0], "none" if tv else "some")
    if e[0] == "call" and e[2].endswith("::is_some") and tv is not None:
        return ("opt", e[3][0], "some" if tv else "none")
    if tv is not None:
        return ("bool", e, tv)
    return ("other", cond, value)


def counter_term(t):
    """Describe a linear base that is a counter observation: ('pre', cellkey, site) for the value an RMW returned,
       ('cur', cellkey, site) for a plain load; None otherwise."""
    if t is None:
        return None
    while t[0] == "someof":
        t = t[1]
    if t[0] == "rmw":
        return ("pre", cell_key(t[1]), t[4], t[2], t[3])
    if t[0] == "aload":
        return ("cur", cell_key(t[1]), t[2])
    return None


# ----------------------------------------------------------------------------- path primitives

def ev_effects(path):
    return [(i, ev[1]) for i, ev in enumerate(path.events) if ev[0] == "eff"]

def ev_branches(path):
    return [(i, ev) for i, ev in enumerate(path.events) if ev[0] == "br"]

def sends_in(model, op, path, cls=None, variant=None):
    out = []
    for i, e in ev_effects(path):
        if e.kind != "send":
            continue
        c = model.recv_class(op, e.recv)
        if cls is not None and c[0] not in (cls if isinstance(cls, (tuple, list, set)) else (cls,)):
            continue
        if variant is not None and e.variant not in (variant if isinstance(variant, (tuple, list, set)) else (variant,)):
            continue
        out.append((i, e, c))
    return out

def guards_before(path, idx):
    """Normalised branch decisions taken on this path before event idx."""
    out = []
    for i, ev in enumerate(path.events[:idx]):
        if ev[0] == "br":
            out.append((i, norm_pred(ev[1], ev[2]), ev))
    return out

def returning(paths):
    return [p for p in paths if p.end == "return"]

def complete(paths):
    """Paths that reach an exit of the arm (not cut by the loop bound)."""
    return [p for p in paths if p.end in ("return", "diverge")]

def incoming_payload(bid, variant):
    return ("field", ("downcast", ("param", bid, 2), variant), 0)

def is_incoming(e, bid, variant):
    return e == incoming_payload(bid, variant)

def strip_clone(e):
    """Peel Clone::clone calls (clone of an Arc is folded already; this is for generic T)."""
    while e[0] == "call" and e[2] == "Clone::clone" and e[3]:
        e = e[3][0]
    return e


def resolve_phis(path, idx, e):
    """Path-sensitive value of a multi-assigned local: replace phi nodes by the last assignment seen on this path before idx."""
    last = {}
    for ev in path.events[:idx]:
        if ev[0] == "set":
            last[ev[1]] = ev[2]
    depth = [0]
    def fn(x):
        if x[0] == "phi" and len(x) > 2 and x[2] in last:
            if depth[0] < 6:
                depth[0] += 1
                try:
                    return rewrite(last[x[2]], fn)
                finally:
                    depth[0] -= 1
            return last[x[2]]
        return None
    return rewrite(e, fn)


def _const_bool(x):
    if x is None or x[0] != "const" or x[3] is None:
        return None
    return bool(x[3])

def raises_flag(e):
    """An atomic effect that leaves a bool flag raised: store(true), swap(true), fetch_or(true), compare_exchange(false, true)."""
    if e.kind != "atomic":
        return False
    if e.op in ("store", "swap", "fetch_or"):
        return _const_bool(e.operand) is True
    if e.op in ("compare_exchange", "compare_exchange_weak"):
        return _const_bool(e.operand) is False      # expected false: the only effective bool transition is to true
    return False

def lowers_flag(e):
    if e.kind != "atomic":
        return False
    if e.op in ("store", "swap", "fetch_and"):
        return _const_bool(e.operand) is False
    if e.op in ("compare_exchange", "compare_exchange_weak"):
        return _const_bool(e.operand) is True
    return False

def flag_observation(x):
    """If x is an observation of an atomic bool flag, return its cell key: a plain load, or the previous value returned by a
    swap(true) / fetch_or(true) (which tests and raises in one step)."""
    if x[0] == "aload":
        return cell_key(x[1])
    if x[0] == "rmw" and x[2] in ("swap", "fetch_or", "fetch_and") and x[3] is not None and x[3][0] == "const":
        return cell_key(x[1])
    return None


def none_after_some_infeasible(path):
    """A path that stores Some(..) into a cell and then, with no visible effect in between (no send, user call, thunk, spawn,
    lock, local call), reads the same cell and takes the None branch cannot be executed by this handler alone; the only
    writers that could interleave are other handlers' clears of *their own* cells (ATM-single-writer, cell hygiene).  Such
    paths are the shadow of `if let Some(tb) = &*cell.load()` written right after `cell.store(Some(tb))`."""
    last_some = {}      # cell key -> event index of the latest store Some with nothing visible since
    for i, ev in enumerate(path.events):
        if ev[0] == "eff":
            e = ev[1]
            if e.kind == "cell" and e.op == "store":
                k = cell_key(e.cell)
                if e.value is not None and e.value[0] == "agg" and e.value[2] == "Option::Some":
                    last_some[k] = i
                else:
                    last_some.pop(k, None)
            elif e.kind == "cell" and e.op in ("load", "load_full"):
                pass
            elif e.kind in ("send", "usercall", "thunk", "spawn", "lock", "localcall", "indirect", "iternext", "poll", "sleep") or \
                    (e.kind == "cell" and e.op not in ("load", "load_full")):
                if not e.tracing:
                    last_some.clear()
        elif ev[0] in ("yield", "enter", "leave"):
            last_some.clear()
        elif ev[0] == "br" and last_some:
            a = norm_pred(ev[1], ev[2])
            x = None
            if a[0] == "opt" and a[2] == "none":
                x = a[1]
            elif a[0] == "discr" and a[2] == 0:
                x = a[1]
            if x is not None and x[0] == "cellload" and cell_key(x[1]) in last_some:
                # the load itself must lie after the store
                site = x[2]
                li = [j for j, ev2 in enumerate(path.events[:i]) if ev2[0] == "eff" and ev2[1].kind == "cell" and ev2[1].op in ("load", "load_full") and ev2[1].site == site]
                if li and li[-1] > last_some[cell_key(x[1])]:
                    return True
    return False
