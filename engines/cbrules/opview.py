"""opview: convenience view of one operator for the property modules (roles, labels, arms, cell finders)."""
from lemmas import *

OPERATOR_CLASSES = {
    # public factory name -> class
    "map": "unary", "filter": "unary", "scan": "unary", "take": "unary", "skip": "unary",
    "merge": "fanin", "combine": "fanin", "concat": "seq", "flatten": "flatten", "share": "share",
    "from_iter": "source", "interval": "source", "for_each": "sink",
}

def op_family(name):
    return name.split("/")[0]


class OpView:
    def __init__(self, model, op):
        self.m = model
        self.op = op
        self.P = model.prog
        self.name = op.name
        self.family = op_family(op.name)
        self.cls = OPERATOR_CLASSES.get(self.family)
        self._arms = {}
        self._labels = None

    # ---- handlers
    def by_role(self, *roles):
        return sorted([b for b in self.op.bodies if self.op.roles.get(b) in roles], key=self._order)

    def _order(self, bid):
        b = self.P.bodies[bid]
        loc = loc_of(b.span).split(":")
        # order by closure index path so that combine members come in member order
        import re
        return [int(x) for x in re.findall(r"closure#(\d+)", bid)]

    @property
    def root(self):
        return self.op.root

    def label(self, bid):
        if self._labels is None:
            self._labels = {}
            for role in ("ROOT", "UP", "DOWN", "UP_INNER", "THUNK", "TASK", "APPLICATION", "FACTORY", "HELPER"):
                hs = self.by_role(role)
                for i, h in enumerate(hs):
                    self._labels[h] = role if len(hs) == 1 else "%s.%d" % (role, i)
        return self._labels.get(bid, self.op.roles.get(bid, "?"))

    def generic_label(self, bid):
        """Label without the member index (for keys shared by all members of a macro-generated family)."""
        return self.op.roles.get(bid, "?")

    def arm(self, bid, variant, inline=1):
        k = (bid, variant, inline)
        if k not in self._arms:
            self._arms[k] = enumerate_paths(self.P, self.P.bodies[bid], variant, inline=inline)
        return self._arms[k]

    def key(self, bid, variant, lemma, what=""):
        fam = self.name
        lab = self.label(bid)
        a = ("." + VSHORT[variant]) if variant else ""
        return "%s:%s%s:%s%s" % (fam, lab, a, lemma, (":" + what) if what else "")

    def loc(self, bid):
        return loc_of(self.P.bodies[bid].span)

    # ---- classification helpers
    def cls_of(self, e):
        return self.m.recv_class(self.op, e.recv)

    def cellname(self, cell_expr):
        return self.m.cell_name(self.op, cell_expr)

    def all_effects(self, bid):
        return list(self.m.all_effects(bid))

    def sends(self, bid=None):
        for (e, b) in self.op.sends:
            if bid is None or b == bid:
                yield e, b

    # ---- cell finders (by structure, never by name)
    def talkback_cells(self):
        """Base keys of cells into which the Handshake payload of an UP / UP_INNER handler is stored."""
        out = {}
        for h in self.by_role("UP", "UP_INNER"):
            for e in self.all_effects(h):
                if e.kind == "cell" and e.op == "store" and e.value is not None and e.value[0] == "agg" and e.value[2] == "Option::Some":
                    if self.m.hs_payload_of(e.value) == [h] or h in self.m.hs_payload_of(e.value):
                        out.setdefault(base_key(e.cell), []).append((h, e))
        return out

    def cell_effects(self, base, kinds=("atomic", "cell", "lock")):
        out = []
        for bid in self.op.bodies:
            for e in self.all_effects(bid):
                if e.kind in kinds and base_key(e.cell) == base:
                    out.append((e, bid))
        return out


def views(model):
    out = []
    for op in model.ops.values():
        if op.handlers:
            out.append(OpView(model, op))
    out.sort(key=lambda v: (v.family, len(v.name), v.name))
    return out


def census_operators(ctx, model):
    """CEN-H (operator level): every top-level function that owns message handlers is a known operator,
    every handler has a role, every send has a classified receiver and a single variant."""
    ok = True
    for v in views(model):
        known = v.cls is not None
        ctx.ob("CEN-H", "%s:operator-known" % v.name, known,
               "operator %s is %s" % (v.name, "class " + str(v.cls) if known else "not in the operator table: its lemmas are not instantiated"), v.loc(v.op.id))
        for h in v.op.handlers:
            r = v.op.roles.get(h)
            good = r in ("ROOT", "UP", "DOWN", "UP_INNER")
            ctx.ob("CEN-H", v.key(h, None, "CEN-H", "role"), good, "handler role %s" % r, v.loc(h))
            ok = ok and good
        for e, b in v.sends():
            c = v.cls_of(e)
            good = c[0] in ("SINK", "UPTB", "UPSRC", "UPSRC_INNER", "SINKLIST") and e.variant in VARIANTS + ["INCOMING"]
            ctx.ob("CEN-S", "%s:%s:CEN-S:%s" % (v.name, v.label(b), "send-classified"), good,
                   "send of %s to %s at %s" % (e.variant, c[0], e.loc), e.loc)
            ok = ok and good
    # helpers (no handlers) must not send
    for op in model.ops.values():
        if op.handlers:
            continue
        for (e, b) in op.sends:
            ctx.ob("CEN-S", "%s:helper-sends" % op.name, False, "a function without message handlers sends a message at %s" % e.loc, e.loc)
            ok = False
    return ok
