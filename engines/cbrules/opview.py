"""opview: convenience view of one operator for the property modules (roles, labels, arms, cell finders)."""
from lemmas import *

OPERATOR_CLASSES = {
    # public factory name -> class
    "map": "unary", "filter": "unary", "scan": "unary", "take": "unary", "skip": "unary",
    "merge": "fanin", "combine": "fanin", "concat": "seq", "flatten": "flatten", "share": "share",
    "from_iter": "source", "interval": "source", "for_each": "sink",
}

def op_family(name):
    return name.split("/")[0]


# analysis depth: set by the runner according to the tier (quick: loops unrolled twice, thunks inlined one level;
# thorough: three times / two levels)
DEPTH = {"max_visits": 2, "inline": 1}


class OpView:
    def __init__(self, model, op):
        self.m = model
        self.op = op
        self.P = model.prog
        self.name = op.name
        self.family = op_family(op.name)
        self.cls = OPERATOR_CLASSES.get(self.family)
        self._arms = {}
        self._labels = None

    # ---- handlers
    def by_role(self, *roles):
        return sorted([b for b in self.op.bodies if self.op.roles.get(b) in roles], key=self._order)

    def _order(self, bid):
        b = self.P.bodies[bid]
        loc = loc_of(b.span).split(":")
        # order by closure index path so that combine members come in member order
        import re
        return [int(x) for x in re.findall(r"closure#(\d+)", bid)]

    @property
    def root(self):
        return self.op.root

    def label(self, bid):
        if self._labels is None:
            self._labels = {}
            for role in ("ROOT", "UP", "DOWN", "UP_INNER", "THUNK", "TASK", "APPLICATION", "FACTORY", "HELPER"):
                hs = self.by_role(role)
                for i, h in enumerate(hs):
                    self._labels[h] = role if len(hs) == 1 else "%s.%d" % (role, i)
        return self._labels.get(bid, self.op.roles.get(bid, "?"))

    def generic_label(self, bid):
        """Label without the member index (for keys shared by all members of a macro-generated family)."""
        return self.op.roles.get(bid, "?")

    def arm(self, bid, variant, inline=None):
        if inline is None:
            inline = DEPTH["inline"]
        k = (bid, variant, inline, DEPTH["max_visits"])
        if k not in self._arms:
            ps = enumerate_paths(self.P, self.P.bodies[bid], variant, max_visits=DEPTH["max_visits"], inline=inline, limit=20000)
            self._arms[k] = [p for p in ps if not none_after_some_infeasible(p)]
        return self._arms[k]

    def key(self, bid, variant, lemma, what=""):
        fam = self.name
        lab = self.label(bid)
        a = ("." + VSHORT[variant]) if variant else ""
        return "%s:%s%s:%s%s" % (fam, lab, a, lemma, (":" + what) if what else "")

    def loc(self, bid):
        return loc_of(self.P.bodies[bid].span)

    # ---- classification helpers
    def cls_of(self, e):
        return self.m.recv_class(self.op, e.recv)

    def cellname(self, cell_expr):
        return self.m.cell_name(self.op, cell_expr)

    def all_effects(self, bid):
        return list(self.m.all_effects(bid))

    def sends(self, bid=None):
        for (e, b) in self.op.sends:
            if bid is None or b == bid:
                if e.variant == "UNKNOWN" and e.get("msg") is not None and e.msg[0] == "phi":
                    # a message built in a multi-assigned local: one pseudo send per alternative (same site)
                    alts = [send_fields(a) for a in e.msg[1]]
                    if alts and all(a[0] in VARIANTS or a[0] == "INCOMING" for a in alts):
                        seen = set()
                        for (sv, pl) in alts:
                            if sv in seen:
                                continue
                            seen.add(sv)
                            d = dict(e.d)
                            d.update(variant=sv, payload=pl, pseudo=True)
                            ne = Effect("send", e.site, e.s, **d)
                            ne.tracing = e.tracing
                            yield ne, b
                        continue
                yield e, b

    # ---- cell finders (by structure, never by name)
    def talkback_cells(self):
        """Base keys of cells into which the Handshake payload of an UP / UP_INNER handler is stored."""
        out = {}
        for h in self.by_role("UP", "UP_INNER"):
            for e in self.all_effects(h):
                if e.kind == "cell" and e.op == "store" and e.value is not None and e.value[0] == "agg" and e.value[2] == "Option::Some":
                    if self.m.hs_payload_of(e.value) == [h] or h in self.m.hs_payload_of(e.value):
                        out.setdefault(base_key(e.cell), []).append((h, e))
        return out

    def cell_effects(self, base, kinds=("atomic", "cell", "lock")):
        out = []
        for bid in self.op.bodies:
            for e in self.all_effects(bid):
                if e.kind in kinds and base_key(e.cell) == base:
                    out.append((e, bid))
        return out


def views(model):
    out = []
    for op in model.ops.values():
        if op.handlers:
            out.append(OpView(model, op))
    out.sort(key=lambda v: (v.family, len(v.name), v.name))
    return out


def census_operators(ctx, model):
    """CEN-H (operator level): every top-level function that owns message handlers is a known operator,
    every handler has a role, every send has a classified receiver and a single variant."""
    ok = True
    for v in views(model):
        known = v.cls is not None
        ctx.ob("CEN-H", "%s:operator-known" % v.name, known,
               "operator %s is %s" % (v.name, "class " + str(v.cls) if known else "not in the operator table: its lemmas are not instantiated"), v.loc(v.op.id))
        for h in v.op.handlers:
            r = v.op.roles.get(h)
            good = r in ("ROOT", "UP", "DOWN", "UP_INNER")
            ctx.ob("CEN-H", v.key(h, None, "CEN-H", "role"), good, "handler role %s" % r, v.loc(h))
            ok = ok and good
        for e, b in v.sends():
            c = v.cls_of(e)
            good = c[0] in ("SINK", "UPTB", "UPSRC", "UPSRC_INNER", "SINKLIST") and e.variant in VARIANTS + ["INCOMING"]
            ctx.ob("CEN-S", "%s:%s:CEN-S:%s" % (v.name, v.label(b), "send-classified"), good,
                   "send of %s to %s at %s" % (e.variant, c[0], e.loc), e.loc)
            ok = ok and good
    # CEN-call: every call that is not classified as a protocol effect goes to a known, pure library function;
    # a local closure may only be handed to a known synchronous higher-order function
    CALL_OK = ("std::", "core::", "alloc::", "arc_swap::", "never::", "combine::Unwrap::unwrap", "combine::Combine::combine",
               "combine::IntoArcSource::")
    HOF_OK = ("std::iter::Iterator::position", "std::iter::Iterator::map", "std::iter::Iterator::collect", "std::vec::Vec::<T, A>::resize_with", "std::iter::repeat_with",
              "std::option::Option::<T>::map", "core::bool::<impl bool>::then", "std::iter::IntoIterator::into_iter", "std::iter::Iterator::any", "std::iter::Iterator::all",
              "std::iter::Iterator::find", "std::iter::Iterator::filter", "std::iter::Iterator::filter_map", "std::iter::Iterator::count", "std::iter::Iterator::rposition",
              "std::vec::Vec::<T, A>::retain", "std::option::Option::<T>::filter", "std::option::Option::<T>::and_then",
              "std::option::Option::<T>::map_or", "std::option::Option::<T>::is_some_and", "std::option::Option::<T>::unwrap_or_else",
              "std::iter::Iterator::enumerate", "std::iter::Iterator::zip", "std::iter::Iterator::skip", "std::iter::Iterator::take")
    for v in views(model):
        bad = []
        n = 0
        for b in v.op.bodies:
            for e in v.all_effects(b):
                if e.tracing:
                    continue
                if e.kind == "indirect":
                    bad.append("call through a value that does not resolve to a local closure or a callbag at %s" % e.loc)
                elif e.kind in ("other", "usertrait", "localcall", "hocall", "alias"):
                    n += 1
                    cal = e.get("callee") or ""
                    if not cal.startswith(CALL_OK):
                        bad.append("call of %s at %s" % (cal, e.loc))
                    if e.kind == "hocall" and e.get("closures") and not cal.startswith(HOF_OK):
                        bad.append("local closure handed to %s at %s" % (cal, e.loc))
                    if cal.startswith(("std::thread::", "std::process::", "std::sync::mpsc::")):
                        bad.append("call of %s at %s" % (cal, e.loc))
                    # a reference count is a runtime quantity no lemma models: a decision made on it is outside
                    # every accepted form (round 9, T01a: interval's task stopped when it held the last handle)
                    if cal.endswith(("::strong_count", "::weak_count")) and ("Arc::<" in cal or "Rc::<" in cal or "Weak::<" in cal):
                        bad.append("reference count observed by %s at %s" % (cal, e.loc))
        ctx.ob("CEN-call", "%s:CEN-call" % v.name, not bad, "%d library calls, all to known pure functions" % n if not bad else "; ".join(bad[:3]), v.loc(v.op.id))
        ok = ok and not bad
    census_core(ctx, model)
    census_build_config(ctx)
    census_helpers(ctx, model)
    # helpers (no handlers) must not send
    for op in model.ops.values():
        if op.handlers:
            continue
        for (e, b) in op.sends:
            if not helper_in_scope(ctx, model, b):
                continue
            ctx.ob("CEN-S", "%s:helper-sends" % op.name, False, "a function without message handlers sends a message at %s" % e.loc, e.loc)
            ok = False
    return ok


# ============================================================================= CEN-core: the local impls the alias table relies on

def census_core(ctx, model):
    """The alias table folds `Callbag::deref`, `Callbag::from(handler)` and `Message::clone` as identities; check on their MIR
    that this is what the three local impls in core.rs are."""
    P = model.prog
    found = {"deref": 0, "from": 0, "clone": 0}
    for bid, b in P.bodies.items():
        if bid == "<core::Callbag<I, O> as std::ops::Deref>::deref":
            found["deref"] += 1
            r = P.link(b.origin_local(0))
            ok = r == ("field", ("param", bid, 1), 0)
            ctx.ob("CEN-core", "core:Callbag::deref", ok, "Callbag::deref returns its only field" if ok else "Callbag::deref returns %s" % show(r), loc_of(b.span))
        elif bid == "<core::Callbag<I, O> as std::convert::From<F>>::from":
            found["from"] += 1
            r = P.link(b.origin_local(0))
            # the Callbag(..) newtype aggregate and Box::new are folded as identities: what is left must be the handler itself,
            # and the body must construct exactly one Callbag aggregate
            n_agg = sum(1 for blk in b.blocks.values() if not blk["cleanup"] for st in blk["stmts"]
                        if st.get("rv", {}).get("k") == "agg" and st["rv"].get("adt") == "core::Callbag")
            ok = r == ("param", bid, 1) and n_agg == 1
            body_effects(P, b)
            extra = [e for e in list(b.effects.values()) if e.kind not in ("alias", "other")]
            ctx.ob("CEN-core", "core:Callbag::from", ok and not extra, "Callbag::from boxes the handler unchanged" if ok and not extra else "Callbag::from builds %s" % show(r), loc_of(b.span))
        elif bid == "<core::Message<I, O> as std::clone::Clone>::clone":
            found["clone"] += 1
            probs = []
            seen = set()
            for vi, var in enumerate(VARIANTS):
                paths = enumerate_paths(P, b, None, limit=5000)
            # the derived clone switches on the discriminant of *self: one returning path per variant
            for p in paths:
                if p.end != "return":
                    continue
                dec = [ev for ev in p.events if ev[0] == "br" and ev[1][0] == "discr"]
                rets = [ev[1] for ev in p.events if ev[0] == "ret"]
                if len(dec) != 1 or not rets:
                    probs.append("clone path without a single variant decision")
                    continue
                vi = dec[0][2]
                r = rets[-1]
                if not (isinstance(vi, int) and r[0] == "agg" and r[1] == "adt" and r[2] == "Message::" + VARIANTS[vi]):
                    probs.append("variant %s cloned into %s" % (vi, show(r)[:40]))
                    continue
                seen.add(vi)
                for x in r[3]:
                    base = strip_clone(x)
                    okf = any(y == ("param", bid, 1) for y in walk(base)) and any(y[0] == "downcast" and y[2] == VARIANTS[vi] for y in walk(base))
                    if not okf:
                        probs.append("payload of %s is not the clone of the same variant's field" % VARIANTS[vi])
            if seen != set(range(5)):
                probs.append("variants covered: %s" % sorted(seen))
            ctx.ob("CEN-core", "core:Message::clone", not probs, "Message::clone maps every variant to itself with the cloned payload" if not probs else "; ".join(probs[:3]), loc_of(b.span))
    # IntoArcSource impls (folded as identities) and the `combine` front function
    n_ias = 0
    for bid, b in P.bodies.items():
        if bid.endswith("as combine::IntoArcSource>::into_arc_source"):
            n_ias += 1
            r = P.link(b.origin_local(0))
            body_effects(P, b)
            extra = [e for e in list(b.effects.values()) if e.kind not in ("alias", "other")]
            ok = r == ("param", bid, 1) and not extra
            ctx.ob("CEN-core", "core:IntoArcSource:%d" % n_ias, ok, "into_arc_source wraps its argument unchanged" if ok else "into_arc_source returns %s" % show(r)[:60], loc_of(b.span))
        if bid == "combine::combine":
            r = P.link(b.origin_local(0))
            ok = r[0] == "call" and r[2] == "combine::Combine::combine" and r[3] == (("param", bid, 1),)
            ctx.ob("CEN-core", "core:combine-fn", ok, "combine(sources) is sources.combine()" if ok else "combine() returns %s" % show(r)[:60], loc_of(b.span))
    if any(bid.startswith("<(") for bid in P.bodies):
        ctx.ob("CEN-core", "core:IntoArcSource:count", n_ias == 3, "%d IntoArcSource impls" % n_ias)
    for k, n in found.items():
        ctx.ob("CEN-core", "core:%s:present" % k, n == 1, "%d impl(s) of %s found" % (n, k))



def census_build_config(ctx):
    """CEN-CFG (build profile axis): the analysis sees the dev profile. Code whose presence depends on `debug_assertions`
    (debug_assert!, cfg!(debug_assertions), #[cfg(debug_assertions)]) would make other profiles differ, so none may exist."""
    import os, glob
    repo = os.environ.get("CB_REPO", "/repo")
    hits = []
    for f in sorted(glob.glob(os.path.join(repo, "src", "**", "*.rs"), recursive=True)):
        txt = re.sub(r"//[^\n]*", "", open(f).read())
        for m in re.finditer(r"debug_assert(?:_eq|_ne)?\s*!|debug_assertions|overflow_checks|cfg\s*!\s*\(|#\[cfg\((?!feature|not\(feature|doctest|all\(feature|any\(feature)", txt):
            line = txt[:m.start()].count("\n") + 1
            hits.append("%s:%d: %s" % (os.path.relpath(f, repo), line, m.group(0)))
    ctx.ob("CEN-CFG", "build-profile-axis", not hits,
           "no code depends on debug_assertions or another build-profile cfg: the dev-profile MIR stands for every profile" if not hits else
           "profile-dependent code (analysed only for the dev profile): %s" % hits[:3])


KNOWN_HELPER_SUFFIXES = ("as combine::Unwrap>::unwrap", "as combine::IntoArcSource>::into_arc_source", "combine::combine",
                         "as std::ops::Deref>::deref", "as std::convert::From<F>>::from", "as std::clone::Clone>::clone", "as std::fmt::Debug>::fmt")

PROP_FAMILIES = {
    "C06": ("map", "filter", "scan", "take", "skip", "concat", "flatten", "from_iter", "for_each", "pipe"),
    "C07": ("map", "filter", "scan", "take", "skip"), "C08": ("merge",), "C09": ("concat",), "C10": ("combine",), "C11": ("flatten",),
    "C12": ("share",), "C14": ("from_iter", "map", "filter", "scan", "take", "skip", "concat", "flatten"), "C15": ("from_iter",),
    "C16": ("interval",), "C18": ("merge", "combine"), "C19": ("take",),
}

def helper_in_scope(ctx, model, bid):
    """Is a helper body (outside every operator) relevant for this property?  By source file: src/<operator>.rs."""
    fams = PROP_FAMILIES.get(ctx.prop)
    if fams is None:
        return True
    f = model.prog.bodies[bid].file
    m = re.match(r"src/(\w+)\.rs$", f)
    if not m or m.group(1) in ("core", "lib"):
        return True
    return m.group(1) in fams


def census_helpers(ctx, model):
    """Local functions outside the operators (trait impls, Drop impls, free helpers) must have no protocol effect at all:
    no send, no cell / atomic write, no call of a user closure. (An effect hidden in a Drop impl or helper would escape every arm lemma.)"""
    bad = []
    n = 0
    for op in model.ops.values():
        if op.handlers:
            continue
        for bid in op.bodies:
            if not helper_in_scope(ctx, model, bid):
                continue
            n += 1
            for e in model.all_effects(bid):
                if e.tracing:
                    continue
                if e.kind in ("send", "usercall", "spawn", "iternext", "lock", "thunk") or (e.kind == "atomic" and e.op != "load") or (e.kind == "cell" and e.op not in ("load", "load_full")):
                    bad.append("%s in %s at %s" % (e.kind, bid[:60], e.loc))
    ctx.ob("CEN-helper", "helpers-have-no-protocol-effect", not bad, "%d helper bodies (trait impls, free functions) have no protocol effect" % n if not bad else "; ".join(bad[:3]))
