"""inline: MIR-level inlining of crate-local helper functions into their callers (DESIGN.md section 12, "helper inlining").

An operator whose arm was refactored into `fn request_next(cell) { ... call!(tb, Pull) }` has the same behaviour as before; the
lemmas are stated over handler arms, so the helper's blocks are spliced into every calling body before anything else looks at
the program: locals and blocks are renumbered, the arguments are assigned to the helper's parameter locals, every `return`
becomes `dest = _0'; goto <continuation>`.  What is inlined is decided by shape only (never by name):

  * the callee is a free function or inherent/trait method of this crate whose MIR is in the fact file (`res_local`, kind fn);
  * it constructs no closure or coroutine of its own (capture linking needs one construction site per closure definition;
    closures expanded from the tracing macros are exempt, they are tau);
  * it is not (mutually) recursive within the inlining depth and is at most MAX_BLOCKS blocks long;
  * it is not one of the trait-dispatch helpers the lemmas already model explicitly (SKIP_PREFIX).

A helper that is not reachable from outside the crate (`exported == false`, rustc's effective visibilities) and was inlined at
every call site has no other caller, so its own body is dropped; an exported helper keeps its body and stays subject to the
helper census.  Anything not inlined stays a `localcall` effect, which CEN-call reports (fail closed)."""
import copy, re

MAX_BLOCKS = 600
MAX_ROUNDS = 3
# std traits implemented by the crate (Deref / Clone / From / Debug of Callbag and Message) are modelled by the alias tables and CEN-core
SKIP_PREFIX = ("combine::Unwrap::", "combine::Combine::", "combine::IntoArcSource::")
SKIP_CRATES = ("std", "core", "alloc")      # the crate that declares the called item (a trait method of std implemented here)


def _is_place(x):
    return isinstance(x, dict) and "l" in x and "p" in x and isinstance(x["p"], list) and isinstance(x["l"], int)


def _rename(x, nl, nb):
    """Deep copy of a MIR JSON fragment with locals shifted by nl (block ids are handled by the caller)."""
    if isinstance(x, dict):
        if _is_place(x) and set(x.keys()) == {"l", "p"}:
            return {"l": x["l"] + nl, "p": [(["i", e[1] + nl] if isinstance(e, list) and e and e[0] == "i" else copy.deepcopy(e)) for e in x["p"]]}
        return {k: _rename(v, nl, nb) for k, v in x.items()}
    if isinstance(x, list):
        return [_rename(v, nl, nb) for v in x]
    return x


FN_CALLS = ("std::ops::Fn::call", "std::ops::FnMut::call_mut", "std::ops::FnOnce::call_once")


def _calls(body):
    for blk in body["blocks"]:
        if blk.get("cleanup"):
            continue
        t = blk["term"]
        if t["k"] == "call":
            c = t["callee"]
            if c.get("self_kind") == "closure" and c.get("res_local") and c.get("def") in FN_CALLS and (c.get("res") or c.get("self_closure")):
                # a direct call of a local closure: `let relay = |m| ..; relay(Message::Pull)`
                yield blk, t, c, c.get("res") or c.get("self_closure"), True
            elif c.get("res_local") and c.get("res_kind") == "item" and c.get("res"):
                yield blk, t, c, c["res"], False


def _open_calls(body, bodies):
    """Local calls of a body that the inliner would itself have to deal with: not the std trait impls of the crate, not thunks,
    not the closures the tracing macros call on the spot."""
    from cbcore import own_file
    for blk, t, c, hid, is_cl in _calls(body):
        if not is_cl and ((c.get("def") or "").startswith(SKIP_PREFIX) or (c.get("crate") in SKIP_CRATES and c.get("def") != "std::default::Default::default")):
            continue
        if is_cl:
            h = bodies.get(hid)
            if h is None or h["kind"] != "closure" or (h["arg_count"] < 2 and not c.get("hof_thunk")) or own_file(h["span"]).startswith(("dep:tracing", "dep:log")):
                continue
        yield hid


def eligible(bodies, parents, hid, callee, is_closure=False, single_site=False):
    h = bodies.get(hid)
    if h is None:
        return False
    if is_closure:
        # closures that take arguments; nullary closures (thunks) are inlined on paths, where the lemmas name them
        if h["kind"] != "closure" or (h["arg_count"] < 2 and not callee.get("hof_thunk")):
            return False
        from cbcore import own_file
        if own_file(h["span"]).startswith(("dep:tracing", "dep:log")):
            return False        # closures written by the tracing macros stay what they were: tau regions
    elif h["kind"] != "fn":
        return False
    elif (callee.get("def") or "").startswith(SKIP_PREFIX) or (callee.get("crate") in SKIP_CRATES and callee.get("def") != "std::default::Default::default"):
        return False        # (a local `impl Default` - typically derived for a state struct - is inlined: the tables say nothing about it)
    if hid in parents and not single_site:
        return False
    if len(h["blocks"]) > MAX_BLOCKS:
        return False
    return True


def inline_into(caller, blk, t, h, is_closure=False):
    """Splice helper h into caller at call terminator t of block blk."""
    nl = max(l["l"] for l in caller["locals"]) + 1
    nb = max(b["id"] for b in caller["blocks"]) + 1
    for l in h["locals"]:
        nlc = dict(l)
        nlc["l"] = l["l"] + nl
        nlc["inl"] = h["id"]
        caller["locals"].append(nlc)
    ts = blk.get("ts")
    if is_closure:
        # rust-call ABI: args = [closure (by ref or value), tuple of the written arguments]; the body takes them spread
        blk["stmts"].append({"lhs": {"l": nl + 1, "p": []}, "rv": {"k": "use", "o": copy.deepcopy(t["args"][0])}, "s": ts, "inl_arg": h["id"]})
        tup = t["args"][1] if len(t["args"]) > 1 else None
        tp = (tup.get("move") or tup.get("copy")) if tup and "const" not in tup else None
        for j in range(h["arg_count"] - 1):
            if tp is None:
                raise ValueError("closure call with a constant argument tuple")
            fld = {"l": tp["l"], "p": list(tp["p"]) + [["f", j]]}
            blk["stmts"].append({"lhs": {"l": nl + 2 + j, "p": []}, "rv": {"k": "use", "o": {"move": fld}}, "s": ts, "inl_arg": h["id"]})
    else:
        for k, a in enumerate(t["args"]):
            blk["stmts"].append({"lhs": {"l": nl + 1 + k, "p": []}, "rv": {"k": "use", "o": copy.deepcopy(a)}, "s": ts, "inl_arg": h["id"]})
    cont = t["succ"][0] if t["succ"] else None
    dest = t["dest"]
    blk["term"] = {"k": "goto", "succ": [nb + h["blocks"][0]["id"]]}
    blk["inl_call"] = h["id"]
    for hb in h["blocks"]:
        nbk = {"id": hb["id"] + nb, "cleanup": hb.get("cleanup", False), "inl": h["id"]}
        nbk["stmts"] = [_rename(st, nl, nb) for st in hb["stmts"]]
        ht = hb["term"]
        if "ts" in hb:
            nbk["ts"] = hb["ts"]
        if ht["k"] == "return" and not hb.get("cleanup"):
            if cont is None:
                nbk["term"] = {"k": "unreachable", "succ": []}
            else:
                nbk["stmts"].append({"lhs": copy.deepcopy(dest), "rv": {"k": "use", "o": {"move": {"l": nl, "p": []}}}, "s": ts, "inl_ret": h["id"]})
                nbk["term"] = {"k": "goto", "succ": [cont]}
        else:
            nt = _rename(ht, nl, nb)
            nt["succ"] = [s + nb for s in ht.get("succ", [])]
            if ht["k"] == "switch":
                nt["targets"] = [[v, b + nb] for v, b in ht["targets"]]
                nt["otherwise"] = ht["otherwise"] + nb if ht["otherwise"] is not None else None
            nbk["term"] = nt
        caller["blocks"].append(nbk)


def fn_consts(x, acc):
    """Function items used as values (operands), not as callees."""
    if isinstance(x, dict):
        c = x.get("const")
        if isinstance(c, dict) and "fn" in c:
            acc.add(c["fn"])
        for v in x.values():
            fn_consts(v, acc)
    elif isinstance(x, list):
        for v in x:
            fn_consts(v, acc)


def _descendants(raw, hid):
    out = set()
    grew = True
    while grew:
        grew = False
        for b in raw["bodies"]:
            if (b["parent"] == hid or b["parent"] in out) and b["id"] not in out:
                out.add(b["id"])
                grew = True
    return out


# ----------------------------------------------------------------------------- std combinators with closures
# `opt.map(|v| ..)`, `res.ok()`, `res.map_err(|e| ..)`, `cond.then(|| ..)`, `opt.and_then(..)`, `opt.unwrap_or_else(..)`: what std does
# with the closure is fixed and tiny, so the call is replaced by the match it stands for; the closure call that appears is then an
# ordinary direct call of a local closure (inlined below if it takes arguments, a thunk otherwise).  A closure that sends or
# stores is thereby analysed in the arm that uses it instead of being an opaque argument of a library function.

HOFS = {
    "std::option::Option::<T>::map": "opt_map",
    "std::option::Option::<T>::and_then": "opt_and_then",
    "std::option::Option::<T>::unwrap_or_else": "opt_unwrap_or_else",
    "std::result::Result::<T, E>::ok": "res_ok",
    "std::result::Result::<T, E>::map_err": "res_map_err",
    "std::result::Result::<T, E>::map": "res_map",
    "core::bool::<impl bool>::then": "bool_then",
    "core::bool::<impl bool>::then_some": "bool_then_some",
}


def _closure_def(body, op):
    """Definition path of the closure an operand holds (a non-capturing closure is a constant), or None."""
    if "const" in op:
        return op["const"].get("closure")
    pl = op.get("move") or op.get("copy")
    if pl is None or pl["p"]:
        return None
    found = None
    for blk in body["blocks"]:
        for st in blk["stmts"]:
            if st.get("lhs") and not st["lhs"]["p"] and st["lhs"]["l"] == pl["l"]:
                rv = st["rv"]
                if rv["k"] == "agg" and rv.get("ak") == "closure":
                    if found is not None and found != rv["def"]:
                        return None
                    found = rv["def"]
                else:
                    return None
    return found


def desugar_hofs(raw):
    from cbcore import own_file
    bodies = {b["id"]: b for b in raw["bodies"]}
    done = []
    for body in raw["bodies"]:
        for blk in list(body["blocks"]):
            t = blk["term"]
            if blk.get("cleanup") or t["k"] != "call":
                continue
            kind = HOFS.get(t["callee"].get("def"))
            cdefn = t["callee"].get("def")
            self_ty = (t["callee"].get("ga") or [""])[0] or ""
            if cdefn == "std::ops::Try::branch" and self_ty.startswith("std::option::Option<"):
                kind = "try_branch_opt"     # the `?` operator on an Option
            elif cdefn == "std::ops::Try::branch" and self_ty.startswith("std::result::Result<"):
                kind = "try_branch_res"
            elif cdefn == "std::ops::FromResidual::from_residual" and self_ty.startswith("std::option::Option<"):
                kind = "from_residual_opt"
            if cdefn and re.match(r"^core::num::<impl \w+>::checked_sub$", cdefn) and len(t["args"]) == 2:
                kind = "checked_sub"        # `r.checked_sub(k)`: Some(r - k) iff r >= k
            if kind is None or own_file(blk.get("ts", {})).startswith(("dep:tracing", "dep:log")):
                continue
            if not t["succ"] or not t["args"]:
                continue
            if kind == "checked_sub":
                a0, b0 = copy.deepcopy(t["args"][0]), copy.deepcopy(t["args"][1])
                for o in (a0, b0):
                    if "move" in o:
                        o["copy"] = o.pop("move")
                ts = blk.get("ts")
                K = t["succ"][0]
                dest = t["dest"]
                nl = max(l["l"] for l in body["locals"]) + 1
                body["locals"].append({"l": nl, "ty": "bool", "flags": [], "hof": True})
                body["locals"].append({"l": nl + 1, "ty": "usize", "flags": [], "hof": True})
                nb = max(b["id"] for b in body["blocks"]) + 1
                okb = {"id": nb, "cleanup": False, "ts": ts, "hof": kind, "stmts": [
                    {"lhs": {"l": nl + 1, "p": []}, "rv": {"k": "binop", "op": "Sub", "a": a0, "b": b0}, "s": ts},
                    {"lhs": dest, "rv": {"k": "agg", "ak": "adt", "adt": "std::option::Option", "variant": "Some", "vi": 1, "ops": [{"move": {"l": nl + 1, "p": []}}]}, "s": ts}],
                    "term": {"k": "goto", "succ": [K]}}
                noneb = {"id": nb + 1, "cleanup": False, "ts": ts, "hof": kind, "stmts": [
                    {"lhs": copy.deepcopy(dest), "rv": {"k": "agg", "ak": "adt", "adt": "std::option::Option", "variant": "None", "vi": 0, "ops": []}, "s": ts}],
                    "term": {"k": "goto", "succ": [K]}}
                body["blocks"].extend([okb, noneb])
                blk["stmts"].append({"lhs": {"l": nl, "p": []}, "rv": {"k": "binop", "op": "Lt", "a": copy.deepcopy(a0), "b": copy.deepcopy(b0)}, "s": ts})
                blk["term"] = {"k": "switch", "discr": {"move": {"l": nl, "p": []}}, "targets": [[0, nb]], "otherwise": nb + 1, "succ": [nb, nb + 1]}
                done.append((body["id"], kind, None))
                continue
            recv = t["args"][0]
            rp = recv.get("move") or recv.get("copy")
            if rp is None:
                continue
            cdef = None
            needs_closure = kind not in ("res_ok", "bool_then_some", "try_branch_opt", "try_branch_res", "from_residual_opt")
            if needs_closure:
                if len(t["args"]) < 2:
                    continue
                cdef = _closure_def(body, t["args"][1])
                if cdef is None or cdef not in bodies or bodies[cdef]["kind"] != "closure":
                    continue
                if own_file(bodies[cdef]["span"]).startswith(("dep:tracing", "dep:log")):
                    continue
            ts = blk.get("ts")
            K = t["succ"][0]
            dest = t["dest"]
            nloc = [max(l["l"] for l in body["locals"]) + 1]
            nblk = [max(b["id"] for b in body["blocks"]) + 1]

            def local(ty):
                l = nloc[0]
                nloc[0] += 1
                body["locals"].append({"l": l, "ty": ty, "flags": [], "hof": True})
                return l

            def block(stmts, term):
                b = {"id": nblk[0], "cleanup": False, "stmts": stmts, "term": term, "ts": ts, "hof": kind}
                nblk[0] += 1
                body["blocks"].append(b)
                return b["id"]

            def assign(place, rv):
                return {"lhs": place, "rv": rv, "s": ts}

            def agg(adt, variant, vi, ops):
                return {"k": "agg", "ak": "adt", "adt": adt, "variant": variant, "vi": vi, "ops": ops}

            def loc(l):
                return {"l": l, "p": []}

            def payload(variant, vi):
                return {"l": rp["l"], "p": list(rp["p"]) + [["d", variant, vi], ["f", 0]]}

            def call_closure(arg_ops, dst, nxt):
                # rust-call ABI: (closure, (args..))
                stmts = []
                if arg_ops:
                    tup = local("(..)")
                    stmts.append(assign(loc(tup), {"k": "agg", "ak": "tuple", "ops": arg_ops}))
                    targ = {"move": loc(tup)}
                else:
                    targ = {"const": {"ty": "()", "v": "()"}}
                callee = {"def": "std::ops::FnOnce::call_once", "crate": "core", "trait": "std::ops::FnOnce", "self_kind": "closure",
                          "self_closure": cdef, "res": cdef, "res_kind": "item", "res_local": True, "ga": [],
                          # the closure argument of a desugared combinator is inlined even when it takes no arguments
                          # (`cond.then(|| ..)`, `opt.unwrap_or_else(|| ..)`): it has no other caller and no lemma names it
                          "hof_thunk": True}
                return stmts, {"k": "call", "callee": callee, "args": [t["args"][1], targ], "dest": dst, "succ": [nxt]}

            OPT, RES = "std::option::Option", "std::result::Result"
            goto_k = {"k": "goto", "succ": [K]}
            unreachable = block([], {"k": "unreachable", "succ": []})
            CF = "std::ops::ControlFlow"
            if kind == "from_residual_opt":
                blk["stmts"].append(assign(dest, agg(OPT, "None", 0, [])))
                blk["term"] = goto_k
            elif kind in ("try_branch_opt", "try_branch_res"):
                d = local("isize")
                if kind == "try_branch_opt":
                    cont = block([assign(dest, agg(CF, "Continue", 0, [{"move": payload("Some", 1)}]))], goto_k)
                    brk = block([assign(dest, agg(CF, "Break", 1, [{"const": {"ty": "Option<Infallible>", "v": "None"}}]))], goto_k)
                    targets = [[0, brk], [1, cont]]
                else:
                    cont = block([assign(dest, agg(CF, "Continue", 0, [{"move": payload("Ok", 0)}]))], goto_k)
                    e0 = local("?")
                    brk = block([assign(loc(e0), {"k": "use", "o": {"move": payload("Err", 1)}}),
                                 assign(dest, agg(CF, "Break", 1, [{"move": loc(e0)}]))], goto_k)
                    targets = [[0, cont], [1, brk]]
                blk["stmts"].append(assign(loc(d), {"k": "discr", "p": {"l": rp["l"], "p": list(rp["p"])}, "nvar": 2}))
                blk["term"] = {"k": "switch", "discr": {"move": loc(d)}, "targets": targets, "otherwise": unreachable, "succ": [cont, brk, unreachable]}
            elif kind in ("opt_map", "opt_and_then", "opt_unwrap_or_else"):
                d = local("isize")
                v = local("?")
                if kind == "opt_map":
                    r = local("?")
                    s2 = block([assign(dest, agg(OPT, "Some", 1, [{"move": loc(r)}]))], goto_k)
                    st, ct = call_closure([{"move": loc(v)}], loc(r), s2)
                    some = block([assign(loc(v), {"k": "use", "o": {"move": payload("Some", 1)}})] + st, ct)
                    none = block([assign(dest, agg(OPT, "None", 0, []))], goto_k)
                elif kind == "opt_and_then":
                    st, ct = call_closure([{"move": loc(v)}], dest, K)
                    some = block([assign(loc(v), {"k": "use", "o": {"move": payload("Some", 1)}})] + st, ct)
                    none = block([assign(dest, agg(OPT, "None", 0, []))], goto_k)
                else:
                    some = block([assign(dest, {"k": "use", "o": {"move": payload("Some", 1)}})], goto_k)
                    st, ct = call_closure([], dest, K)
                    none = block(st, ct)
                blk["stmts"].append(assign(loc(d), {"k": "discr", "p": {"l": rp["l"], "p": list(rp["p"])}, "nvar": 2}))
                blk["term"] = {"k": "switch", "discr": {"move": loc(d)}, "targets": [[0, none], [1, some]], "otherwise": unreachable, "succ": [none, some, unreachable]}
            elif kind in ("res_ok", "res_map_err", "res_map"):
                d = local("isize")
                if kind == "res_ok":
                    ok = block([assign(dest, agg(OPT, "Some", 1, [{"move": payload("Ok", 0)}]))], goto_k)
                    err = block([assign(dest, agg(OPT, "None", 0, []))], goto_k)
                elif kind == "res_map_err":
                    e0, x = local("?"), local("?")
                    ok = block([assign(dest, agg(RES, "Ok", 0, [{"move": payload("Ok", 0)}]))], goto_k)
                    s2 = block([assign(dest, agg(RES, "Err", 1, [{"move": loc(x)}]))], goto_k)
                    st, ct = call_closure([{"move": loc(e0)}], loc(x), s2)
                    err = block([assign(loc(e0), {"k": "use", "o": {"move": payload("Err", 1)}})] + st, ct)
                else:
                    v0, x = local("?"), local("?")
                    err = block([assign(dest, agg(RES, "Err", 1, [{"move": payload("Err", 1)}]))], goto_k)
                    s2 = block([assign(dest, agg(RES, "Ok", 0, [{"move": loc(x)}]))], goto_k)
                    st, ct = call_closure([{"move": loc(v0)}], loc(x), s2)
                    ok = block([assign(loc(v0), {"k": "use", "o": {"move": payload("Ok", 0)}})] + st, ct)
                blk["stmts"].append(assign(loc(d), {"k": "discr", "p": {"l": rp["l"], "p": list(rp["p"])}, "nvar": 2}))
                blk["term"] = {"k": "switch", "discr": {"move": loc(d)}, "targets": [[0, ok], [1, err]], "otherwise": unreachable, "succ": [ok, err, unreachable]}
            else:   # bool_then / bool_then_some
                if kind == "bool_then":
                    r = local("?")
                    s2 = block([assign(dest, agg(OPT, "Some", 1, [{"move": loc(r)}]))], goto_k)
                    st, ct = call_closure([], loc(r), s2)
                    yes = block(st, ct)
                else:
                    yes = block([assign(dest, agg(OPT, "Some", 1, [t["args"][1]]))], goto_k)
                no = block([assign(dest, agg(OPT, "None", 0, []))], goto_k)
                blk["term"] = {"k": "switch", "discr": recv, "targets": [[0, no]], "otherwise": yes, "succ": [no, yes]}
            done.append((body["id"], kind, cdef))
    raw["hofs_desugared"] = [{"body": b, "kind": k, "closure": c} for b, k, c in done]
    return done


def inline_local_calls(raw):
    """Returns a list of (caller, helper) pairs that were inlined; mutates raw in place."""
    desugar_hofs(raw)
    bodies = {b["id"]: b for b in raw["bodies"]}
    from cbcore import own_file
    # closures written by the tracing macros (event dispatch) do not capture protocol state; any other closure makes its parent ineligible
    parents = {b["parent"] for b in raw["bodies"] if b["kind"] in ("closure", "coroutine")
               and not own_file(b["span"]).startswith(("dep:tracing", "dep:log"))}
    pristine = {}
    done = []
    left = {}       # helper id -> call sites not inlined
    moved = set()   # helpers with closures of their own, moved into their only caller
    used_as_value = set()
    for b in raw["bodies"]:
        fn_consts(b["blocks"], used_as_value)
    for rnd in range(MAX_ROUNDS):
        changed = False
        left = {}
        sites = {}
        for b in raw["bodies"]:
            for _, _, _, hid, _ in _calls(b):
                sites[hid] = sites.get(hid, 0) + 1
        for caller in list(raw["bodies"]):
            if caller["id"] in moved:
                continue
            for blk, t, c, hid, is_cl in list(_calls(caller)):
                if is_cl and (hid not in bodies or bodies[hid]["kind"] != "closure" or (bodies[hid]["arg_count"] < 2 and not c.get("hof_thunk"))
                              or own_file(bodies[hid]["span"]).startswith(("dep:tracing", "dep:log"))):
                    continue        # thunks and coroutines: not ours, and not a leftover either
                # a private helper that builds closures of its own (a talkback constructor) can be moved into its only caller:
                # every closure then still has exactly one construction site, and its lexical parent becomes the caller
                single = (not is_cl and hid in parents and hid in bodies and sites.get(hid) == 1 and not bodies[hid].get("exported", True)
                          and hid not in used_as_value and hid != caller["id"] and caller["id"] not in _descendants(raw, hid))
                if single and eligible(bodies, parents, hid, c, False, True) and not any(True for _ in _open_calls(bodies[hid], bodies)):
                    inline_into(caller, blk, t, bodies[hid], False)
                    for b in raw["bodies"]:
                        if b["parent"] == hid and b["kind"] in ("closure", "coroutine"):
                            b["parent"] = caller["id"]
                            b["reparented_from"] = hid
                    raw["bodies"] = [b for b in raw["bodies"] if b["id"] != hid]
                    moved.add(hid)
                    parents.discard(hid)
                    parents.add(caller["id"])
                    done.append((caller["id"], hid))
                    changed = True
                    continue
                if hid == caller["id"] or not eligible(bodies, parents, hid, c, is_cl):
                    left[hid] = left.get(hid, 0) + 1
                    continue
                if hid not in pristine:
                    pristine[hid] = copy.deepcopy(bodies[hid])
                if rnd == MAX_ROUNDS - 1 and any(True for _ in _open_calls(pristine[hid], bodies)):
                    left[hid] = left.get(hid, 0) + 1
                    continue
                inline_into(caller, blk, t, pristine[hid], is_cl)
                done.append((caller["id"], hid))
                changed = True
        if not changed:
            break
    inlined = {h for _, h in done if h not in moved}
    drop = {h for h in inlined if bodies[h]["kind"] == "fn" and not bodies[h].get("exported", True) and not left.get(h)}
    raw["inlined_closures"] = sorted(h for h in inlined if bodies[h]["kind"] == "closure" and not left.get(h))
    # a helper that is also used as a value (`.map(helper)`, a fn pointer) still has callers we do not see: it stays
    drop = {h for h in drop if h not in used_as_value}
    if drop:
        raw["bodies"] = [b for b in raw["bodies"] if b["id"] not in drop]
    raw["inlined"] = [{"caller": c, "helper": h, "dropped": h in drop} for c, h in done]
    return done
