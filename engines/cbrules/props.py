"""props: the property modules C01..C20 (DESIGN.md section 6). Each function instantiates lemma
templates on the model of one feature configuration and records obligations in the Ctx."""
from opview import *

REGISTRY = {}

def prop(pid, level, explanation, **kw):
    def deco(fn):
        d = {"fn": fn, "level": level, "explanation": explanation}
        d.update(kw)
        REGISTRY[pid] = d
        return fn
    return deco


# ============================================================================= shared lemma instances

def payload_kind(v, bid, variant, payload):
    """Describe a payload relative to the arm it is sent from."""
    if payload is None:
        return "none"
    if variant and payload == incoming_payload(bid, variant):
        return "in"
    if payload == ("param", bid, 2):
        return "msg"
    if payload[0] == "agg" and payload[1] == "closure":
        return "closure:%s" % v.op.roles.get(payload[2], "?")
    return "expr"


def send_sig(v, bid, variant, path):
    """[(class, variant, payload kind, effect, event index)] of a path."""
    out = []
    for i, e in ev_effects(path):
        if e.kind == "send":
            c = v.cls_of(e)
            sv, pl = e.variant, e.payload
            if sv == "UNKNOWN" and e.get("msg") is not None:
                # the message was built in a multi-assigned local (e.g. re-built from a borrow in a merged arm): take this path's value
                sv, pl = send_fields(resolve_phis(path, i, e.msg))
                if sv != "UNKNOWN":
                    d = dict(e.d)
                    d.update(variant=sv, payload=pl, pseudo=True)
                    ne = Effect("send", e.site, e.s, **d)
                    ne.tracing = e.tracing
                    e = ne      # the effect as it reads on this path (same site)
            pk = payload_kind(v, bid, variant, pl)
            if sv == "INCOMING" and variant is not None and v.family != "share" and pl == ("param", bid, 2):
                # the incoming message forwarded as it is (merged relay arms): in this arm it is this arm's variant
                sv = variant
                pk = "in" if variant in ("Handshake", "Data", "Error") else "none"
            out.append((c[0], sv, pk, e, i, c))
    return out


def opt_guarded(path, idx, load_expr):
    """GRD-opt: is event idx dominated (on this path) by the decision that this very cell load was Some -
    or that another load of the same cell was Some with no send in between (nothing can re-enter between the two loads)?"""
    ck = cell_key(load_expr[1])
    for (i, atom, ev) in guards_before(path, idx):
        some = (atom[0] == "discr" and atom[2] in (1,)) or (atom[0] == "opt" and atom[2] == "some")
        if not some or atom[1][0] != "cellload":
            continue
        if atom[1] == load_expr:
            return True
        if cell_key(atom[1][1]) == ck:
            # the tested load happened at its own site; no send between that load and the use
            test_idx = None
            for j, e in ev_effects(path):
                if e.kind == "cell" and e.op in ("load", "load_full") and e.site == atom[1][2]:
                    test_idx = j
            if test_idx is not None and not [1 for j, e in ev_effects(path) if test_idx < j < idx and e.kind == "send"]:
                return True
    return False


def recv_load(e):
    """The cellload expression a receiver was taken from (or None)."""
    ls = [x for x in walk(e.recv) if x[0] == "cellload"]
    return ls[0] if ls else None


def recv_is_expect(e):
    """Receiver obtained by expect/unwrap of the cell content (not by a Some-pattern)."""
    return e.recv[0] == "someof" or any(x[0] == "someof" for x in walk(e.recv))




# ----------------------------------------------------------------------------- "already over" early returns

def over_flags(v):
    """Atomic bool cells that mean 'this subscription's output is over': every store of `true` into them happens in the
    sink-facing talkback's Error/Terminate arms or on a path that itself sends a terminal message (to the sink or upstream)."""
    if getattr(v, "_over_flags", None) is not None:
        return v._over_flags
    cands = {}
    for b in v.op.bodies:
        body = v.P.bodies[b]
        if not body.is_handler():
            continue
        role = v.op.roles.get(b)
        for var in VARIANTS:
            for p in v.arm(b, var):
                if p.end == "cut":
                    continue      # a prefix of longer paths (loop bound): judged on the complete ones
                sig = send_sig(v, b, var, p)
                terminal = any(s[1] in ("Error", "Terminate") or (s[1] == "INCOMING" and var in ("Error", "Terminate")) for s in sig)
                for i, e in ev_effects(p):
                    if raises_flag(e):
                        ck = cell_key(e.cell)
                        good = (role == "DOWN" and var in ("Error", "Terminate")) or terminal
                        cands[ck] = cands.get(ck, True) and good
    # stores outside handlers (thunks, tasks) disqualify
    for b in v.op.bodies:
        if v.P.bodies[b].is_handler():
            continue
        for e in v.all_effects(b):
            if raises_flag(e):
                cands[cell_key(e.cell)] = False
    v._over_flags = {k for k, ok in cands.items() if ok}
    return v._over_flags


def dead_path(v, p):
    """A path that finds the output already over (an over-flag is seen set) and does nothing at all."""
    if p.end != "return":
        return False
    of = over_flags(v)
    seen = False
    for (_, a, _) in guards_before(p, len(p.events)):
        if a[0] == "bool" and a[2] is True and flag_observation(a[1]) in of:
            seen = True
    if not seen:
        return False
    for i, e in ev_effects(p):
        if e.tracing:
            continue
        if effect_visible(v.P, e) and not (e.kind == "atomic" and e.op == "load") and not (e.kind == "cell" and e.op in ("load", "load_full")):
            return False
    return True


def live(v, paths):
    return [p for p in paths if not dead_path(v, p)]




def tb_clears_legit(v, base):
    """Every clear of this talkback cell happens where the upstream it names is gone: in an end arm (Error / Terminate) of the
    handler that stores it (the upstream ended by itself), or on a path that has already sent that very talkback a Terminate /
    Error.  Only then does 'the cell is empty' mean 'nobody is there to be told'; a clear anywhere else (say, in a Pull arm)
    would make the empty branch reachable while the upstream is alive, and the relay lemmas may not skip it."""
    cache = v.__dict__.setdefault("_tb_clears_legit", {})
    if base in cache:
        return cache[base]
    tb = v.talkback_cells()
    storers = {h for h, _ in tb.get(base, [])}
    ok = True
    for b in v.op.bodies:
        body = v.P.bodies[b]
        for var in (VARIANTS if body.is_handler() else [None]):
            for p in v.arm(b, var):
                for i, e in ev_effects(p):
                    if not (e.kind == "cell" and e.op in ("store", "swap") and base_key(e.cell) == base):
                        continue
                    val = e.value
                    if val is not None and val[0] == "agg" and val[2] == "Option::Some":
                        continue
                    if b in storers and var in ("Error", "Terminate"):
                        # the upstream this handler listens to has ended - but the clear must come before anything that can put the
                        # NEXT upstream's talkback into the same cell (concat: `next()` subscribes the next member, which may greet
                        # synchronously and store): a clear after that wipes a live talkback
                        resub = [1 for j, x in ev_effects(p) if j < i and x.kind == "send" and x.variant == "Handshake"
                                 and v.cls_of(x)[0] in ("UPSRC", "UPSRC_INNER")]
                        if resub:
                            ok = False
                        continue
                    told = [1 for j, x in ev_effects(p) if j < i and x.kind == "send" and x.variant in ("Terminate", "Error")
                            and recv_load(x) is not None and cell_key(recv_load(x)[1]) == cell_key(e.cell)]
                    if (e.op == "swap" or e.get("swapped")) and not told:
                        # `if let Some(tb) = cell.swap(None) { tb(Terminate) }`: taken out and told right away - or it was empty already
                        told = [1 for j, x in ev_effects(p) if j > i and x.kind == "send" and x.variant in ("Terminate", "Error")
                                and any(y[0] == "cellload" and y[2] == e.site for y in walk(x.recv))]
                        was_empty = [1 for (j, a, _) in guards_before(p, len(p.events)) if j > i and a[1][0] == "cellload" and a[1][2] == e.site
                                     and ((a[0] == "opt" and a[2] == "none") or (a[0] == "discr" and a[2] == 0))]
                        told = told or was_empty
                    if not told:
                        ok = False
    cache[base] = ok
    return ok


def tb_none_decided(v, p):
    """The path saw a talkback cell empty (the upstream it would talk to has ended or was disposed): nothing needs to be sent.
    Only for cells whose every clear is legitimate (tb_clears_legit)."""
    tb = v.talkback_cells()
    for (_, a, _) in guards_before(p, len(p.events)):
        if a[0] == "opt" and a[1][0] == "cellload" and a[2] == "none" and base_key(a[1][1]) in tb and tb_clears_legit(v, base_key(a[1][1])):
            return True
        if a[0] == "discr" and a[1][0] == "cellload" and a[2] == 0 and base_key(a[1][1]) in tb and tb_clears_legit(v, base_key(a[1][1])):
            return True
    return False


def lemma_rel_silent(ctx, v, bid, variant, lemma="REL-silent"):
    """No sends and no state writes on any path of the arm."""
    bad = []
    for p in v.arm(bid, variant):
        for i, e in ev_effects(p):
            if e.tracing:
                continue
            if e.kind == "send" or (e.kind == "atomic" and e.op != "load") or (e.kind == "cell" and e.op not in ("load", "load_full")) \
               or e.kind in ("pstore", "thunk", "usercall", "spawn", "iternext"):
                bad.append("%s at %s" % (e.kind, e.loc))
    return ctx.ob(lemma, v.key(bid, variant, lemma), not bad, "arm is silent" if not bad else "arm has effects: " + "; ".join(sorted(set(bad))[:4]), v.loc(bid))


def lemma_rel_one(ctx, v, bid, variant, cls, svariant, pkind, lemma="REL-1:1", what="", only_class=None):
    """On every returning path of the arm: exactly one send to class `cls`, of variant `svariant`, with payload kind
    `pkind`; and no other send to the classes in only_class (default: the same class)."""
    only = only_class or (cls,)
    paths = live(v, v.arm(bid, variant))
    problems = []
    npaths = 0
    for p in paths:
        if p.end not in ("return", "cut"):
            continue
        sig = [s for s in send_sig(v, bid, variant, p) if s[0] in only]
        want = [s for s in sig if s[0] == cls and s[1] == svariant and (pkind is None or s[2] == pkind)]
        if p.end == "cut":
            # a prefix of longer paths (loop bound): it may not have reached the send yet, but must not exceed it
            if len(sig) > 1 or len(want) != len(sig):
                problems.append("path sends %s" % ([(s[0], s[1], s[2]) for s in sig],))
            continue
        npaths += 1
        if cls == "UPTB" and not sig and tb_none_decided(v, p):
            continue      # relay through a talkback cell that was seen empty: that upstream is gone
        if len(sig) != 1 or len(want) != 1:
            problems.append("path sends %s" % ([(s[0], s[1], s[2]) for s in sig],))
    ok = not problems and npaths > 0
    return ctx.ob(lemma, v.key(bid, variant, lemma, what), ok,
                  ("every path sends exactly one %s(%s) to %s" % (svariant, pkind, cls)) if ok else
                  ("expected exactly one %s(%s) to %s on every path; %s" % (svariant, pkind, cls, "; ".join(sorted(set(problems))[:3]))),
                  v.loc(bid))


# ============================================================================= C05

@prop("C05", "other",
      "Decided on the MIR of every upstream-facing Error arm (all operators, all 12 combine arities, both feature "
      "configurations): REL-1:1 - every path through the arm sends exactly one message to the sink, of variant Error, whose "
      "payload is the arm's own incoming error binding reached through moves / Arc::clone only (clauses a, b, c); for merge and "
      "flatten the disposal of the sibling members / the other level (Some-guarded Terminate to every other talkback cell) "
      "precedes the relay on every path (clause d); share relays the incoming message itself to every element of the sink "
      "list (clause e). W5 (thorough) pins that the payload type is an Arc, so a moved binding is the same allocation. "
      "'Exactly once per subscription' additionally rests on C02's once-table. Not decided: histories outside axioms A1-A6. "
      "combine's member Error arm sends no Error at all: known finding KF-1.",
      axioms=["A1", "A2", "A3", "A6"])
def C05(ctx, model, tier, models):
    census_operators(ctx, model)
    for v in views(model):
        ups = v.by_role("UP", "UP_INNER")
        for h in ups:
            if v.family == "for_each":
                continue   # a sink: the error ends the subscription silently (C04 covers its discipline)
            paths = v.arm(h, "Error")
            if v.family == "share":
                _share_fanout(ctx, v, h, "Error", "C05")
                continue
            if v.family == "combine":
                # aggregated key over the macro-generated family (EQV-arity shows all arities agree)
                bad = []
                for p in returning(paths):
                    sig = [s for s in send_sig(v, h, "Error", p) if s[0] == "SINK"]
                    if not (len(sig) == 1 and sig[0][1] == "Error" and sig[0][2] == "in"):
                        bad.append([(s[1], s[2]) for s in sig])
                ctx.ob("REL-1:1", "combine:UP.E:REL-1:1:error-not-relayed", not bad,
                       "member Error arm of %s %s relays the error" % (v.name, v.label(h)) if not bad else
                       "member Error arm of %s %s sends %s to the sink instead of exactly one Error(incoming)" % (v.name, v.label(h), bad[:2]),
                       v.loc(h))
                continue
            lemma_rel_one(ctx, v, h, "Error", "SINK", "Error", "in", what="error-relayed")
            # (d) dispose the remaining live upstreams before relaying
            if v.family == "merge":
                _merge_sibling_disposal(ctx, v, h)
            if v.family == "flatten":
                _flatten_cross_disposal(ctx, v, h, "Error")
    ctx.floor("REL-1:1", 9 + 78)   # 9 relay arms (share's is REL-fanout) + 78 combine member arms
    ctx.floor("REL-fanout", 1)
    ctx.floor("REL-bcast", 3)


def _share_fanout(ctx, v, h, variant, pid):
    """REL-fanout: every send of the arm goes to an element of the (whole) sink list and carries the incoming message;
    one send per loop iteration."""
    problems = []
    n = 0
    for p in v.arm(h, variant):
        for s in send_sig(v, h, variant, p):
            n += 1
            cls, sv, pk, e, i, c = s
            if cls != "SINKLIST" or sv != "INCOMING" or pk != "msg":
                problems.append("send %s(%s) to %s at %s" % (sv, pk, cls, e.loc))
                continue
            nx = [x for x in walk(e.recv) if x[0] == "call" and x[2] == "std::iter::Iterator::next"]
            if not nx or nx[0][3][0][0] != "cellload":
                problems.append("receiver is not an element of the whole sink list at %s" % e.loc)
        # one send per iteration
        seg = 0
        for ev in p.events:
            if ev[0] == "br" and ev[1][0] == "discr" and ev[1][1][0] == "call" and ev[1][1][2] == "std::iter::Iterator::next":
                if ev[2] == 1:
                    seg = 0
            if ev[0] == "eff" and ev[1].kind == "send":
                seg += 1
                if seg > 1:
                    problems.append("more than one send per iteration")
    for p in returning(v.arm(h, variant)):
        it = [1 for i, ev in ev_branches(p) if ev[1][0] == "discr" and ev[1][1][0] == "call" and ev[1][1][2] == "std::iter::Iterator::next"
              and ev[1][1][3] and ev[1][1][3][0][0] == "cellload"]
        if not it:
            problems.append("a path of the arm returns without fanning the message out (the loop over the sink list is skipped)")
        # nothing but the list load may decide anything before the loop is entered
        first_it = min([i for i, ev in ev_branches(p) if ev[1][0] == "discr" and ev[1][1][0] == "call" and ev[1][1][2] == "std::iter::Iterator::next"] + [10 ** 9])
        pre = [a for (i, a, ev) in guards_before(p, first_it) if not (a[0] == "discr" and a[1] == ("param", h, 2))]
        if pre:
            problems.append("the fan-out is conditional on %s" % (pre[0][0],))
    ok = not problems and n > 0
    ctx.ob("REL-fanout", v.key(h, variant, "REL-fanout"), ok,
           "the incoming message is cloned to every element of the sink list" if ok else "; ".join(sorted(set(problems))[:3]), v.loc(h))


def _merge_sibling_disposal(ctx, v, h):
    """merge UP.E: Terminate to every other member's cell (Some-guarded, index != own index, range 0..n) before the relay."""
    problems = []
    tb = v.talkback_cells()
    n_paths = 0
    for p in v.arm(h, "Error"):
        sig = send_sig(v, h, "Error", p)
        sink = [s for s in sig if s[0] == "SINK"]
        ups = [s for s in sig if s[0] == "UPTB"]
        if p.end == "return":
            n_paths += 1
        for s in ups:
            cls, sv, pk, e, i, c = s
            if sv != "Terminate":
                problems.append("sibling receives %s" % sv)
            ld = recv_load(e)
            if ld is None or not opt_guarded(p, i, ld):
                problems.append("sibling disposal not guarded by the cell being Some at %s" % e.loc)
            if sink and i > sink[0][4]:
                problems.append("sibling disposed after the relay at %s" % e.loc)
            # index differs from own index
            sel = cell_key(ld[1])[1] if ld else None
            if not sel or sel[0] != "idx":
                problems.append("sibling cell is not an indexed member cell")
            else:
                ne = [a for (_, a, _) in guards_before(p, i) if a[0] == "cmp" and a[3] == "!=" and a[4] == 0]
                if not any((a[1] == sel[1] or a[2] == sel[1]) for a in ne):
                    problems.append("no j != i test before the sibling disposal")
        # the relay comes after the loop has finished (range exhausted)
        if p.end == "return" and sink:
            done = [i for i, ev in ev_branches(p) if ev[1][0] == "discr" and ev[1][1][0] == "call" and ev[1][1][2] == "std::iter::Iterator::next" and ev[2] == 0]
            if not done or done[-1] > sink[0][4]:
                problems.append("relay before the sibling loop is exhausted")
    # the loop ranges over 0..n with n the member count
    rng = _range_loops(v, h, "Error")
    if not rng:
        problems.append("no 0..n loop over the members")
    for (lo, hi) in rng:
        if not (lo[0] == "const" and lo[3] == 0 and _is_member_count(v, hi)):
            problems.append("sibling loop does not range over 0..n")
    any_send = any(s[0] == "UPTB" for p in v.arm(h, "Error") for s in send_sig(v, h, "Error", p))
    if not any_send:
        problems.append("no sibling disposal at all")
    ok = not problems
    ctx.ob("REL-bcast", v.key(h, "Error", "REL-bcast", "siblings-disposed-before-relay"), ok,
           "every other member cell that is Some is sent Terminate before the Error is relayed" if ok else "; ".join(sorted(set(problems))[:4]),
           v.loc(h))


def _range_loops(v, bid, variant):
    out = set()
    for p in v.arm(bid, variant):
        for i, ev in ev_branches(p):
            c = ev[1]
            if c[0] == "discr" and c[1][0] == "call" and c[1][2] == "std::iter::Iterator::next":
                src = c[1][3][0]
                if src[0] == "agg" and src[2].startswith("Range::"):
                    out.add((src[3][0], src[3][1]))
                while src[0] == "call" and src[2] in ("std::iter::Iterator::filter", "std::iter::Iterator::filter_map", "std::iter::Iterator::map") and len(src[3]) == 2:
                    src = src[3][0]      # filters drop elements, they do not change the range that is walked
                if src[0] == "call" and src[2] == "std::iter::Iterator::enumerate" and len(src[3]) == 1:
                    # `for (j, x) in xs.iter().enumerate()` ranges over 0..len(xs) (cbcore._project gives j and x their index-loop form)
                    out.add((("const", "usize", "0_usize", 0), ("call", src[1], "<[T]>::len", (src[3][0],))))
    return out


def _is_member_count(v, e):
    """e is len(sources) of the factory's member collection."""
    if e[0] == "call" and e[2].endswith("::len"):
        ps = [x for x in walk(e) if x[0] == "param"]
        return bool(ps) and all(not v.P.bodies[x[1]].is_handler() for x in ps)
    return False


def _flatten_cross_disposal(ctx, v, h, variant):
    """flatten error arms: the other level's talkback cell is tested and, if Some, sent Terminate before the relay."""
    problems = []
    own_cells = {k for k, lst in v.talkback_cells().items() if any(hh == h for hh, _ in lst)}
    other = [k for k in v.talkback_cells() if k not in own_cells]
    for p in returning(v.arm(h, variant)):
        sig = send_sig(v, h, variant, p)
        sink = [s for s in sig if s[0] == "SINK"]
        if not sink:
            continue
        before = [s for s in sig if s[0] == "UPTB" and s[4] < sink[0][4]]
        tested_none = False
        for (i, a, ev) in guards_before(p, sink[0][4]):
            if a[0] == "discr" and a[1][0] == "cellload" and base_key(a[1][1]) in other and a[2] != 1:
                tested_none = True
            if a[0] == "opt" and a[1][0] == "cellload" and base_key(a[1][1]) in other and a[2] == "none":
                tested_none = True
        disposed = [s for s in before if s[1] == "Terminate" and recv_load(s[3]) is not None and base_key(recv_load(s[3])[1]) in other
                    and opt_guarded(p, s[4], recv_load(s[3]))]
        if not (tested_none or disposed):
            problems.append("a path relays the error without testing / disposing the other level")
        if len(disposed) > 1:
            problems.append("other level disposed twice")
    ok = not problems and other
    ctx.ob("REL-bcast", v.key(h, variant, "REL-bcast", "other-level-disposed-before-relay"), ok,
           "the other level is disposed (if still subscribed) before the error is relayed" if ok else "; ".join(sorted(set(problems))[:3]) or "no other-level cell", v.loc(h))


# ============================================================================= C13

def _under_clone_ok(v, e, root_bodies):
    """Every factory/application parameter leaf of e is reached through a Clone::clone / into_iter of a clone evaluated per subscription."""
    bad = []
    def rec(x, cloned):
        if not isinstance(x, tuple) or not x:
            return
        if x[0] == "param":
            if not v.P.bodies[x[1]].is_handler() and not cloned:
                bad.append(x)
            return
        if x[0] == "call" and x[2] == "Clone::clone" and x[1][0] in root_bodies:
            cloned = True
        for y in x[1:]:
            if isinstance(y, tuple) and y and isinstance(y[0], str):
                rec(y, cloned)
            elif isinstance(y, tuple):
                for z in y:
                    if isinstance(z, tuple) and z and isinstance(z[0], str):
                        rec(z, cloned)
    rec(e, False)
    return bad


@prop("C13", "proof",
      "Separation argument, decided statically for every operator except share (DESIGN 6/C13): (1) SCP-static - the crate declares "
      "no interior-mutable static or thread_local outside tracing's call-site statics; (2) CEN-C + SCP-sub - every interior-mutable "
      "cell touched by any handler (found by effect, allocation site resolved through captures) and every local of a factory / "
      "application body whose type contains an UnsafeCell (found by type, after peeling Arc/Box/&/Vec, ignoring type parameters and "
      "trait objects) is allocated inside ROOT's Handshake arm or deeper (for the sink factory for_each: inside one application); "
      "ROOT's other arms are silent; (3) SCP-clone - whatever a cell's initial value takes from factory scope is a per-subscription "
      "Clone made in ROOT (iterator, seed), and ROOT closures capture no interior-mutable value; (4) PL-sub - upstream sources are "
      "subscribed from ROOT.H or deeper, i.e. afresh per subscription. Obligations = statics + cells + typed locals + captures + "
      "subscribe sites, all must be discharged. share's two factory-scope cells are the excepted, intended sharing.",
      trusted_base=["cbmir extractor (rustc MIR, -Zmir-opt-level=0)", "UnsafeCell-based detection of interior mutability",
                    "user types I, F, N, T carry no hidden shared state", "witnesses W2/W3 (thorough tier): handlers are Fn + Send + Sync"],
      axioms=[])
def C13(ctx, model, tier, models):
    census_operators(ctx, model)
    P = model.prog
    # (1) statics
    n_static = 0
    for s in P.statics:
        tr = own_file(s["s"]).startswith("dep:tracing") or any("@dep:tracing" in b for b in s["s"].get("bt", []))
        imut = "imut" in s["flags"] or s["mutable"] or s["thread_local"]
        n_static += 1
        ctx.ob("SCP-static", "static:%s" % s["path"].split("::")[-1] if not tr else "static:tracing-callsite", (not imut) or tr,
               "static %s (%s) %s" % (s["path"], s["ty"][:60], "is tracing call-site bookkeeping" if tr else ("is immutable" if not imut else "is interior-mutable shared state")),
               loc_of(s["s"]))
    ctx.ob("SCP-static", "static:census", True, "%d statics inspected" % n_static)
    for v in views(model):
        excepted = v.family == "share"
        root_bodies = set()
        if v.root:
            root_bodies = {v.root} | {b for b in v.op.bodies if v.root in P.ancestors(b)}
        sub_scope_ok = ("SUBSCRIPTION", "DELIVERY") + (("APPLICATION",) if v.cls == "sink" else ())
        # (2a) cells by effect
        for k, c in sorted(v.op.cells.items(), key=lambda kv: str(kv[0])):
            name = c.name or "cell"
            ok = c.scope in sub_scope_ok
            if excepted:
                ctx.ob("SCP-sub", "%s:cell:%s:excepted" % (v.name, name), c.scope == "FACTORY",
                       "share cell %s is factory-scoped by design (the intended sharing)" % name, None)
                continue
            ctx.ob("SCP-sub", "%s:cell:%s:scope" % (v.name, name), ok,
                   "cell %s is allocated at %s scope (%s)" % (name, c.scope, show(c.alloc)[:80]), None)
            # (3) initial value
            bad = _under_clone_ok(v, c.alloc, root_bodies | ({b for b in v.op.bodies if v.op.roles.get(b) == "APPLICATION"} if v.cls == "sink" else set()))
            # plain Copy parameters (usize bounds, Duration) may flow in directly: only user-typed (param) values need the clone
            bad2 = []
            for x in bad:
                lt = P.bodies[x[1]].locals[x[2]]
                if "param" in lt["flags"] or "imut" in lt["flags"]:
                    bad2.append(x)
            ctx.ob("SCP-clone", "%s:cell:%s:init" % (v.name, name), not bad2,
                   "initial value of %s is per-subscription" % name if not bad2 else
                   "initial value of %s takes %s from factory scope without a per-subscription clone" % (name, [show(x) for x in bad2]), None)
        # (2b) locals by type in factory / application / helper bodies
        for b in v.op.bodies:
            r = v.op.roles.get(b)
            if r not in ("FACTORY", "APPLICATION", "HELPER"):
                continue
            if v.cls == "sink" and r == "APPLICATION":
                continue
            body = P.bodies[b]
            for l, d in sorted(body.locals.items()):
                if "imut" not in d["flags"]:
                    continue
                if excepted:
                    continue
                if _is_tracing_local(body, l):
                    continue
                ctx.ob("SCP-sub", "%s:%s:typed-local" % (v.name, v.label(b)), False,
                       "%s body holds a value with interior mutability: _%d: %s" % (r, l, d["ty"][:90]), v.loc(b))
            ctx.ob("SCP-sub", "%s:%s:typed-locals-census" % (v.name, v.label(b)), True, "%d locals inspected" % len(body.locals), v.loc(b))
        # ROOT: captures carry no interior mutability; non-H arms silent
        if v.root:
            rb = P.bodies[v.root]
            for cap in rb.captures:
                if excepted:
                    continue
                ok = "imut" not in cap["flags"]
                ctx.ob("SCP-clone", "%s:ROOT:capture:%s" % (v.name, cap["name"]), ok,
                       "ROOT captures %s: %s%s" % (cap["name"], cap["ty"][:70], "" if ok else " (interior-mutable state shared by all subscriptions)"), v.loc(v.root))
            for var in ("Data", "Pull", "Error", "Terminate"):
                lemma_rel_silent(ctx, v, v.root, var)
        # (4) subscribe sites
        for e, b in v.sends():
            if e.variant != "Handshake":
                continue
            c = v.cls_of(e)
            if c[0] not in ("UPSRC", "UPSRC_INNER"):
                continue
            r = v.op.roles.get(b)
            ok = b in root_bodies or (v.cls == "sink" and r == "APPLICATION")
            ctx.ob("PL-sub", "%s:%s:PL-sub:scope" % (v.name, v.label(b)), ok,
                   "upstream is subscribed from %s (%s)" % (r, "per subscription" if ok else "shared by all subscriptions"), e.loc)
    ctx.floor("SCP-sub", 31 + 12 * 4)   # 31 cells at subscription/application scope (+ share's 2), combine counted per arity
    ctx.floor("PL-sub", 12)


def _is_tracing_local(body, l):
    ty = body.locals[l]["ty"]
    return ty.startswith("tracing::") or ty.startswith("&tracing::") or "tracing::span::" in ty[:40] or ty.startswith("tracing_core::")


# ============================================================================= shared: counters and once-guards

def cell_writes(v, base):
    """All non-load effects on the cell with this base key, anywhere in the operator: [(effect, body id)]."""
    out = []
    for (e, b) in v.cell_effects(base):
        if e.kind == "atomic" and e.op == "load":
            continue
        if e.kind == "cell" and e.op in ("load", "load_full"):
            continue
        out.append((e, b))
    return out


def cell_init(v, base):
    """Initial constant of an atomic cell (None if not a constant)."""
    c = v.op.cells.get(base)
    if c is None:
        return None
    a = c.alloc
    if a[0] == "call" and a[3]:
        x = a[3][0]
        if x[0] == "const":
            return x[3]
    if a[0] == "call" and not a[3] and a[2] == "std::default::Default::default":
        return 0        # `AtomicUsize::default()` / `AtomicBool::default()` (a #[derive(Default)] state struct): zero / false
    return None


def grd_once(v, path, idx):
    """GRD-once: is event idx guarded by `post(RMW) == k` on a monotone unit-step counter?  Returns a dict or None."""
    for (i, a, ev) in guards_before(path, idx):
        if a[0] != "cmp" or a[3] != "==":
            continue
        for (L, R, sign) in ((a[1], a[2], 1), (a[2], a[1], -1)):
            ct = counter_term(L)
            if ct is None or ct[0] != "pre":
                continue
            _, ck, site, op, operand = ct
            if op not in ("fetch_add", "fetch_sub") or operand is None or operand[0] != "const" or operand[3] != 1:
                continue
            step = 1 if op == "fetch_add" else -1
            # L - R == c  (sign=1)   or   R' - L == c  (sign=-1, L is the counter)  =>  pre == R + c*sign
            c = a[4] * sign
            # every write of the counter is the same unit-step RMW
            uniform = True
            for (e2, b2) in cell_writes(v, ck[0]):
                if not (e2.kind == "atomic" and e2.op == op and e2.operand is not None and e2.operand[0] == "const" and e2.operand[3] == 1):
                    uniform = False
            init = cell_init(v, ck[0])
            scope = v.op.cells[ck[0]].scope if ck[0] in v.op.cells else None
            # the RMW must be on this path before the guard, with no send in between
            rmw_idx = None
            for j, e in ev_effects(path):
                if e.kind == "atomic" and e.site == site and j < i:
                    rmw_idx = j
            sends_between = [e for j, e in ev_effects(path) if rmw_idx is not None and rmw_idx < j < idx and e.kind == "send"]
            return {"cell": ck, "op": op, "step": step, "bound": R, "post_offset": c + step, "uniform": uniform, "init": init,
                    "scope": scope, "rmw_idx": rmw_idx, "adjacent": rmw_idx is not None and not sends_between, "guard_idx": i}
    return None


def site_arms(v, bid, site):
    """Variants of the arms of handler bid in which the effect at `site` can execute. `site` may be an Effect: for a send whose
    variant is only known per path (a message re-built in a multi-assigned local) only the arms in which it sends that variant count."""
    want = None
    if isinstance(site, Effect):
        if site.get("pseudo"):
            want = site.variant
        site = site.site
    cache = v.__dict__.setdefault("_site_arms_cache", {})
    ckey = (bid, site, want, DEPTH["max_visits"], DEPTH["inline"])
    if ckey in cache:
        return list(cache[ckey])
    b = v.P.bodies[bid]
    arms = VARIANTS if b.is_handler() else [None]
    if want is None:
        # one pass over the paths of the body indexes every site
        idx = v.__dict__.setdefault("_site_index", {})
        ikey = (bid, DEPTH["max_visits"], DEPTH["inline"])
        if ikey not in idx:
            m = {}
            for var in arms:
                for p in v.arm(bid, var):
                    for _, e in ev_effects(p):
                        m.setdefault(e.site, set()).add(var)
            idx[ikey] = m
        out = [var for var in arms if var in idx[ikey].get(site, ())]
        cache[ckey] = out
        return list(out)
    out = []
    for var in arms:
        for p in v.arm(bid, var):
            hit = False
            if want is None:
                hit = any(e.site == site for _, e in ev_effects(p))
            else:
                hit = any(s[3].site == site and s[1] == want for s in send_sig(v, bid, var, p))
            if hit:
                out.append(var)
                break
    cache[ckey] = out
    return list(out)


def _site_on_no_path(v, bid, e):
    """True if no path of any arm of the body passes through the block of effect e, and no arm was cut short (so that
    'not enumerated' means 'not reachable', given the constant decisions the enumeration takes)."""
    b = v.P.bodies[bid]
    blk = e.site[1]
    for var in (VARIANTS if b.is_handler() else [None]):
        for p in v.arm(bid, var):
            if blk in p.blocks:
                return False
    return True


def thunk_cell_none_dead(v, p):
    """The path saw a cell that holds a local thunk (concat's `next`) empty - although that cell is stored before the thunk's
    first call in ROOT.H and never cleared (the K-thunk invariant of C17): such a path cannot run."""
    for (_, a, _) in guards_before(p, len(p.events)):
        if not (((a[0] == "opt" and a[2] == "none") or (a[0] == "discr" and a[2] == 0)) and a[1][0] == "cellload"):
            continue
        ld = a[1]
        if v.m.recv_class(v.op, ("someof", ld))[0] != "THUNKCELL":
            continue
        ck = cell_key(ld[1])
        if _none_stores(v, ck[0]):
            continue
        r = v.root
        okp = r is not None
        if okp:
            for pp in returning(v.arm(r, "Handshake", inline=0)):
                st = [j for j, x in ev_effects(pp) if x.kind == "cell" and x.op == "store" and base_key(x.cell) == ck[0]]
                th = [j for j, x in ev_effects(pp) if x.kind == "thunk"]
                if not st or (th and st[0] > th[0]):
                    okp = False
        if okp:
            return True
    return False


def thunk_callers(v, target):
    """[(caller body, variant, effect)] of every call of the local thunk `target` inside the operator."""
    out = []
    for b in v.op.bodies:
        for e in v.all_effects(b):
            if e.kind == "thunk" and e.target == target:
                for var in site_arms(v, b, e):
                    out.append((b, var, e))
            if (e.kind in ("hocall", "alias", "other", "cell", "atomic", "spawn") and target in (e.get("closures") or [])) or e.get("closure") == target or e.get("task") == target:
                for var in site_arms(v, b, e):
                    out.append((b, var, e))
    return out


def greet_sends(v):
    return [(e, b) for e, b in v.sends() if e.variant == "Handshake" and v.cls_of(e)[0] in ("SINK", "SINKLIST")]


def nonh_sink_sends(v):
    return [(e, b) for e, b in v.sends() if e.variant != "Handshake" and v.cls_of(e)[0] in ("SINK", "SINKLIST")]


# ============================================================================= C01

@prop("C01", "other",
      "Structural proof of (a) at most one Handshake per subscription reaches the sink and (b) no Data/Error/Terminate reaches it "
      "before its greeting began, for every operator and all 12 combine arities, in both feature configurations, under peer axioms "
      "A1-A6 (late greeters included). Lemmas decided on the MIR path sets: PL-greet (greeting sites are exactly one per UP.H arm, "
      "or in ROOT for from_iter / interval / share-later, never in a loop, at most one per path), REL-1:1 for the unary relays, "
      "GRD-once on merge's start_count (post==1) and combine's n_start (post==0, init N = member count) with ORD-adjacent, concat's "
      "GRD-cmp i==0, interval's and share's REL-xor in ROOT.H, PL-nonH (every non-Handshake send to the sink sits in a non-H arm of "
      "an upstream-facing handler, in a thunk called only from such arms / DOWN.P / the spawned task, or in interval's refusal "
      "branch), ORD-no-upcall-before-greet and ORD-store-pub in every UP.H arm, ESC-down / ESC-sink (the talkback and the sink do "
      "not leak). Not decided: interval's first tick relative to the greeting (needs timer axiom A8, finding R-1).",
      axioms=["A1", "A2", "A3", "A4", "A5", "A6", "A8 (interval only)"])
def C01(ctx, model, tier, models):
    census_operators(ctx, model)
    for v in views(model):
        if v.cls == "sink":
            continue
        P = v.P
        greets = greet_sends(v)
        # ---- PL-greet: where the greeting sites are
        for e, b in greets:
            role = v.op.roles.get(b)
            arms = site_arms(v, b, e)
            if role in ("UP",):
                ok = arms == ["Handshake"]
                why = "greeting in %s arm(s) %s" % (v.label(b), arms)
            elif role == "ROOT":
                ok = arms == ["Handshake"] and v.family in ("from_iter", "interval", "share")
                why = "greeting in ROOT (%s)" % v.family
            else:
                ok = False
                why = "greeting in a %s body" % role
            ctx.ob("PL-greet", v.key(b, None, "PL-greet", "site"), ok, why, e.loc)
            # never in a loop, at most one greeting per path
            multi = False
            for var in (VARIANTS if P.bodies[b].is_handler() else [None]):
                for p in v.arm(b, var):
                    if len([1 for s in send_sig(v, b, var, p) if s[1] == "Handshake" and s[0] in ("SINK", "SINKLIST")]) > 1:
                        multi = True
            ctx.ob("PL-greet", v.key(b, None, "PL-greet", "once-per-path"), not multi,
                   "no path of %s greets twice" % v.label(b) if not multi else "a path greets the sink twice", e.loc)
        ctx.ob("PL-greet", "%s:PL-greet:exists" % v.name, len(greets) >= 1, "%d greeting site(s)" % len(greets), v.loc(v.op.id))
        # ---- per class once-argument
        ups = v.by_role("UP")
        if v.cls == "unary" or v.family in ("flatten", "share"):
            for h in ups:
                lemma_rel_one(ctx, v, h, "Handshake", "SINK", "Handshake", "closure:DOWN", what="greet")
        if v.family in ("merge", "combine"):
            members = len(ups)
            for h in ups:
                found = False
                for p in v.arm(h, "Handshake"):
                    for s in send_sig(v, h, "Handshake", p):
                        if s[1] == "Handshake" and s[0] == "SINK":
                            found = True
                            g = grd_once(v, p, s[4])
                            key = v.key(h, "Handshake", "GRD-once", "greet")
                            if g is None:
                                ctx.ob("GRD-once", key, False, "greeting is not guarded by an equality on the result of an atomic read-modify-write", s[3].loc)
                                continue
                            post_k = g["post_offset"]
                            bound_ok = g["bound"] is None
                            if v.family == "merge":
                                want = g["step"] == 1 and g["init"] == 0 and post_k == 1
                            else:
                                want = g["step"] == -1 and g["init"] == members and post_k == 0
                            ok = bound_ok and want and g["uniform"] and g["scope"] == "SUBSCRIPTION"
                            ctx.ob("GRD-once", key, ok,
                                   "greeting guarded by post(%s)==%s, init %s, step %+d, uniform writes %s, %s scope; members=%d" % (
                                       v.m.cell_name(v.op, ("call",) + g["cell"][0] + ((),)) if False else str(v.op.cells[g["cell"][0]].name), post_k, g["init"], g["step"], g["uniform"], g["scope"], members), s[3].loc)
                            ctx.ob("ORD-adjacent", v.key(h, "Handshake", "ORD-adjacent", "greet"), g["adjacent"],
                                   "no send between the counter update and the greeting it guards" if g["adjacent"] else "a send lies between the counter update and the guarded greeting", s[3].loc)
                # exactly one RMW of the greeting counter on every path of the arm (each member counts once)
                ctx.ob("PL-greet", v.key(h, "Handshake", "PL-greet", "member-greets"), found, "member arm contains the guarded greeting", v.loc(h))
        if v.family == "concat":
            for h in ups:
                for p in v.arm(h, "Handshake"):
                    for s in send_sig(v, h, "Handshake", p):
                        if s[1] == "Handshake" and s[0] == "SINK":
                            ok = False
                            cellk = None
                            for (i, a, ev) in guards_before(p, s[4]):
                                if a[0] == "cmp" and a[3] == "==" and a[4] == 0 and a[2] is None:
                                    ct = counter_term(a[1])
                                    if ct and ct[0] == "cur":
                                        ok = True
                                        cellk = ct[1]
                            ctx.ob("GRD-cmp", v.key(h, "Handshake", "GRD-cmp", "greet-first-member-only"), ok,
                                   "greeting guarded by member index == 0" if ok else "greeting not guarded by member index == 0", s[3].loc)
                            if cellk:
                                # the index is written only by a unit increment in UP.T that precedes the call of `next`
                                ws = cell_writes(v, cellk[0])
                                good = all(e2.kind == "atomic" and e2.op == "fetch_add" and e2.operand[3] == 1 and v.op.roles.get(b2) == "UP" and site_arms(v, b2, e2.site) == ["Terminate"] for e2, b2 in ws) and cell_init(v, cellk[0]) == 0
                                ctx.ob("GRD-cmp", v.key(h, "Handshake", "GRD-cmp", "index-monotone"), good and len(ws) >= 1,
                                       "member index starts at 0 and is written only by +1 in the member's Terminate arm", s[3].loc)
        if v.family in ("from_iter",):
            r = v.root
            lemma_rel_one(ctx, v, r, "Handshake", "SINK", "Handshake", "closure:DOWN", what="greet")
        if v.family == "interval":
            r = v.root
            probs = []
            n_ok = n_err = 0
            for p in returning(v.arm(r, "Handshake")):
                sig = [s for s in send_sig(v, r, "Handshake", p) if s[0] == "SINK"]
                spawns = [(i, e) for i, e in ev_effects(p) if e.kind == "spawn"]
                if len(spawns) != 1:
                    probs.append("not exactly one spawn")
                    continue
                dec = [a for (i, a, ev) in guards_before(p, len(p.events)) if a[0] == "discr" and a[1][0] == "call" and "nurse" in a[1][2]]
                if not dec:
                    probs.append("spawn result not tested")
                    continue
                is_err = dec[0][2] == 1
                if is_err:
                    n_err += 1
                    if [(s[1]) for s in sig] != ["Error"]:
                        probs.append("refusal path sends %s" % [s[1] for s in sig])
                else:
                    n_ok += 1
                    if [(s[1], s[2]) for s in sig] != [("Handshake", "closure:DOWN")]:
                        probs.append("accept path sends %s" % [s[1] for s in sig])
            ok = not probs and n_ok >= 1 and n_err >= 1
            ctx.ob("REL-xor", v.key(r, "Handshake", "REL-xor", "greet-or-refuse"), ok,
                   "ROOT.H sends exactly one of {Error (spawn failed), Handshake (spawned)}" if ok else "; ".join(probs) or "missing branch", v.loc(r))
        if v.family == "share":
            r = v.root
            probs = []
            kinds = set()
            for p in returning(v.arm(r, "Handshake")):
                sig = send_sig(v, r, "Handshake", p)
                hs = [(s[0], s[1]) for s in sig]
                if hs == [("UPSRC", "Handshake")]:
                    kinds.add("subscribe")
                elif hs == [("SINK", "Handshake")]:
                    kinds.add("greet")
                else:
                    probs.append("path sends %s" % hs)
            ok = not probs and kinds == {"subscribe", "greet"}
            ctx.ob("REL-xor", v.key(r, "Handshake", "REL-xor", "subscribe-or-greet"), ok,
                   "ROOT.H either subscribes upstream (and returns) or greets the later sink directly" if ok else "; ".join(probs) or str(kinds), v.loc(r))
        # ---- PL-nonH
        for e, b in nonh_sink_sends(v):
            role = v.op.roles.get(b)
            arms = site_arms(v, b, e)
            ok, why = False, ""
            if role in ("UP", "UP_INNER"):
                ok = "Handshake" not in arms
                why = "%s send in %s arms %s" % (e.variant, v.label(b), [VSHORT[a] for a in arms])
            elif role == "THUNK":
                callers = thunk_callers(v, b)
                good = []
                for (cb, cvar, ce) in callers:
                    cr = v.op.roles.get(cb)
                    if cr in ("UP", "UP_INNER") and cvar != "Handshake":
                        good.append(True)
                    elif cr == "DOWN" and cvar == "Pull" and v.family == "from_iter":
                        good.append(True)
                    elif cr == "ROOT" and cvar == "Handshake" and v.family == "concat":
                        # the first call of `next`: the member index still has its initial value 0, so for n >= 1 the
                        # completion branch is not taken (value fact recorded as an assumption)
                        good.append(True)
                    else:
                        good.append(False)
                ok = bool(callers) and all(good)
                why = "%s send in thunk %s called from %s" % (e.variant, v.label(b), sorted({"%s.%s" % (v.label(cb), VSHORT.get(cv, "-")) for cb, cv, _ in callers}))
            elif role == "TASK":
                callers = thunk_callers(v, b)
                ok = v.family == "interval" and bool(callers) and all(v.op.roles.get(cb) == "ROOT" and cv == "Handshake" for cb, cv, _ in callers)
                why = "%s send in the task spawned by ROOT.H" % e.variant
            elif role == "ROOT":
                ok = v.family == "interval" and e.variant == "Error" and arms == ["Handshake"]
                why = "interval's refusal (spawn error) in ROOT.H"
            else:
                why = "%s send in a %s body" % (e.variant, role)
            ctx.ob("PL-nonH", v.key(b, None, "PL-nonH", "%s-site" % VSHORT.get(e.variant, e.variant)), ok, why, e.loc)
        # ---- order lemmas in UP.H arms
        tb = v.talkback_cells()
        down_reads = set()
        for d in v.by_role("DOWN"):
            for e in v.all_effects(d):
                if e.kind == "cell" and e.op in ("load", "load_full"):
                    down_reads.add(base_key(e.cell))
        for h in ups:
            bad_up, bad_store = [], []
            stores_here = [k for k, lst in tb.items() if any(hh == h for hh, _ in lst)]
            for p in v.arm(h, "Handshake"):
                sig = send_sig(v, h, "Handshake", p)
                g = [s for s in sig if s[1] == "Handshake" and s[0] in ("SINK", "SINKLIST")]
                if not g:
                    continue
                gi = g[0][4]
                for s in sig:
                    if s[0] in ("UPTB", "UPSRC", "UPSRC_INNER") and s[4] < gi:
                        bad_up.append(s[3].loc)
                for k in stores_here:
                    if k in down_reads:
                        st = [i for i, e in ev_effects(p) if e.kind == "cell" and e.op == "store" and base_key(e.cell) == k and i < gi]
                        if not st:
                            bad_store.append(str(v.op.cells[k].name))
            ctx.ob("ORD-no-upcall-before-greet", v.key(h, "Handshake", "ORD-no-upcall-before-greet"), not bad_up,
                   "nothing is sent upstream before the greeting" if not bad_up else "upstream is called before the sink is greeted at %s" % bad_up[:2], v.loc(h))
            if any(k in down_reads for k in stores_here):
                ctx.ob("ORD-store-pub", v.key(h, "Handshake", "ORD-store-pub"), not bad_store,
                       "talkback cell is stored before the talkback that reads it is published" if not bad_store else
                       "greeting publishes a talkback that reads %s before it is stored" % sorted(set(bad_store)), v.loc(h))
        # ---- escape lemmas
        _escape_lemmas(ctx, v)
    ctx.floor("PL-greet", 13)
    ctx.floor("PL-nonH", 40)
    ctx.floor("GRD-once", 1 + 78)
    ctx.assumptions.append("concat!() has at least one member (the property's own bound): with zero members the first call of `next` would terminate an ungreeted sink")


def _escape_lemmas(ctx, v):
    """ESC-down: the DOWN handler value flows only into aliases, captures and the greeting payload.
       ESC-sink: the sink flows only into send receivers, captures, aliases, share's list and Arc::ptr_eq."""
    downs = set(v.by_role("DOWN"))
    root = v.root
    bad_down, bad_sink = [], []
    n = 0
    for b in v.op.bodies:
        for e in v.all_effects(b):
            if e.tracing:
                continue
            args = e.get("args") or []
            if e.kind == "send":
                alts = [(e.variant, e.payload)]
                if e.variant == "UNKNOWN" and e.get("msg") is not None and e.msg[0] == "phi":
                    alts = [send_fields(a) for a in e.msg[1]]       # a message built in `let out = match ..`: judged per alternative
                for (sv, pl) in alts:
                    if pl is not None and sv != "Handshake":
                        for x in walk(pl):
                            if x[0] == "agg" and x[1] == "closure" and x[2] in downs:
                                bad_down.append("talkback sent as %s payload at %s" % (sv, e.loc))
                for (sv, pl) in alts:
                    if sv == "Handshake" and pl is not None and pl[0] == "agg" and pl[2] in downs:
                        n += 1
                        if v.cls_of(e)[0] not in ("SINK", "SINKLIST"):
                            bad_down.append("talkback handed to %s at %s" % (v.cls_of(e)[0], e.loc))
                continue
            if e.kind in ("alias",):
                continue
            vals = list(args)
            if e.kind == "cell" and e.value is not None:
                vals.append(e.value)
            if e.kind == "pstore":
                vals.append(e.value if isinstance(e.value, tuple) else ("unit",))
            for a in vals:
                if not isinstance(a, tuple):
                    continue
                for x in walk(a):
                    if x[0] == "agg" and x[1] == "closure" and x[2] in downs and a[0] == "agg" and a[1] == "closure" and a[2] in downs:
                        bad_down.append("talkback passed to %s at %s" % (e.get("callee") or e.kind, e.loc))
                if root and v.m.hs_payload_of(a) and root in v.m.hs_payload_of(a):
                    top_is_sink = (a == incoming_payload(root, "Handshake"))
                    if not top_is_sink:
                        continue   # the sink inside a closure capture / aggregate: captured, not passed
                    cal = e.get("callee") or ""
                    if e.kind in ("other", "hocall") and (cal.endswith("Arc::<T, A>::ptr_eq") or cal.endswith("::ptr_eq") or cal.endswith("Vec::<T, A>::push") or cal.endswith("::push")
                                                          or cal == "std::iter::once"):
                        continue        # iter::once(sink) is the element appended to share's list (GRD-len's closure lemma says where it ends up)
                    if e.kind in ("other",) and cal.startswith("std::ops::Deref"):
                        continue
                    bad_sink.append("sink passed to %s at %s" % (cal or e.kind, e.loc))
    if downs:
        ctx.ob("ESC-down", "%s:ESC-down" % v.name, not bad_down and n >= 1,
               "the talkback flows only into the greeting payload" if not bad_down else "; ".join(sorted(set(bad_down))[:3]), v.loc(v.op.id))
    if root:
        ctx.ob("ESC-sink", "%s:ESC-sink" % v.name, not bad_sink,
               "the sink flows only into send receivers, captures, share's list and Arc::ptr_eq" if not bad_sink else "; ".join(sorted(set(bad_sink))[:3]), v.loc(v.op.id))


# ============================================================================= shared: terminal sites

def terminal_sink_sends(v):
    """Sends of Error/Terminate (or of the incoming message in an E/T arm) to the sink / sink list: [(effect, body, arms)]."""
    out = []
    for e, b in v.sends():
        c = v.cls_of(e)
        if c[0] not in ("SINK", "SINKLIST"):
            continue
        if e.variant in ("Error", "Terminate"):
            out.append((e, b, site_arms(v, b, e)))
        elif e.variant == "INCOMING":
            arms = [a for a in site_arms(v, b, e) if a in ("Error", "Terminate")]
            if arms:
                out.append((e, b, arms))
    return out


def flag_guard(path, idx, want):
    """GRD-flag: decisions `atomic bool load == want` taken before idx: returns list of cell keys."""
    out = []
    for (i, a, ev) in guards_before(path, idx):
        if a[0] == "bool" and a[2] == want and flag_observation(a[1]) is not None:
            out.append(flag_observation(a[1]))
    return out


def first_visible(v, path):
    for i, e in ev_effects(path):
        if e.tracing or not effect_visible(v.P, e):
            continue
        if e.kind == "panic":
            continue
        return i, e
    return None, None


def path_terminals(v, bid, variant, path):
    return [s for s in send_sig(v, bid, variant, path) if s[0] in ("SINK", "SINKLIST") and (s[1] in ("Error", "Terminate") or (s[1] == "INCOMING" and variant in ("Error", "Terminate")))]


def lemma_nothing_after_terminal(ctx, v):
    """Path-local part of C02(b)/(a): no path of any body delivers anything to the sink after a terminal message,
    and no path delivers two terminals."""
    for b in v.op.bodies:
        body = v.P.bodies[b]
        arms = VARIANTS if body.is_handler() else [None]
        bad = []
        any_term = False
        for var in arms:
            for p in v.arm(b, var):
                sig = [s for s in send_sig(v, b, var, p) if s[0] in ("SINK", "SINKLIST")]
                terms = [s for s in sig if s[1] in ("Error", "Terminate") or (s[1] == "INCOMING" and var in ("Error", "Terminate"))]
                if terms:
                    any_term = True
                if v.family == "share" and var in ("Error", "Terminate"):
                    continue   # fan-out of one terminal to the list: one per element (REL-fanout)
                if len(terms) > 1:
                    bad.append("two terminal messages on one path (%s)" % VSHORT.get(var, "-"))
                if terms:
                    after = [s for s in sig if s[4] > terms[0][4]]
                    if after:
                        bad.append("%s sent after the terminal message (%s)" % (after[0][1], VSHORT.get(var, "-")))
        if any_term:
            ctx.ob("ORD-terminal-last", "%s:%s:ORD-terminal-last" % (v.name, v.label(b)), not bad,
                   "on every path the terminal message is the last thing the sink receives" if not bad else "; ".join(sorted(set(bad))[:3]), v.loc(b))


# ============================================================================= C02

@prop("C02", "other",
      "Structural proof of (a) at most one Error/Terminate per sink and (b) nothing after it, for sequential histories under axioms "
      "A1-A6: the complete list of terminal-to-sink send sites is computed (census; an unclassifiable site fails closed) and each "
      "site is discharged by its once-argument - REL-1:1 relays of the single upstream's terminal (map, filter, scan, skip, take, "
      "concat E, flatten), take's self-completion (GRD-cmp post(taken)==max on the RMW result, GRD-flag end==false, end stored "
      "before both sends, upstream Terminate before the sink's), merge T (GRD-once end_count==n, n = member count), merge E "
      "(over-flag stored first, siblings disposed before the relay), combine (GRD-once n_end==0, init N), concat's completion in "
      "`next` (GRD-cmp i==n, thunk called only from the member's Terminate arm and once from ROOT), flatten's two completion sites "
      "(each guarded by the other level's cell being None, the complementary branch clearing its own cell), from_iter (guarded by "
      "res_done, loop left at once), share (REL-fanout of the single upstream terminal, list cleared), interval's refusal. "
      "ORD-terminal-last: on no path of any body does a send to the sink follow a terminal. Recorded exception: share's snapshot "
      "fan-out (KF-5).",
      axioms=["A1", "A2", "A3", "A5", "A6"])
def C02(ctx, model, tier, models):
    census_operators(ctx, model)
    for v in views(model):
        if v.cls == "sink":
            continue
        lemma_nothing_after_terminal(ctx, v)
        tb = v.talkback_cells()
        for e, b, arms in terminal_sink_sends(v):
            role = v.op.roles.get(b)
            lab = v.label(b)
            key = lambda what: "%s:%s:%s" % (v.name, lab, what)
            handled = False
            # --- relays of the upstream's own terminal
            if role in ("UP", "UP_INNER") and set(arms) <= {"Error", "Terminate"}:
                for var in arms:
                    if v.family == "share":
                        _share_fanout(ctx, v, b, var, "C02")
                        _share_clear_after(ctx, v, b, var)
                        # KF-5: the fan-out iterates a snapshot of the list without a per-iteration liveness test
                        _share_fanout_live(ctx, v, b, var)
                        handled = True
                        continue
                    if v.family in ("merge", "combine") and not (v.family == "merge" and var == "Error"):
                        ok_all, n = True, 0
                        for p in v.arm(b, var):
                            for s in path_terminals(v, b, var, p):
                                n += 1
                                g = grd_once(v, p, s[4])
                                if g is None:
                                    ok_all = False
                                    continue
                                members = len(v.by_role("UP"))
                                if v.family == "merge":
                                    good = g["step"] == 1 and g["init"] == 0 and g["post_offset"] == 0 and g["bound"] is not None and _is_member_count(v, g["bound"])
                                else:
                                    good = g["step"] == -1 and g["init"] == members and g["post_offset"] == 0 and g["bound"] is None
                                if not (good and g["uniform"] and g["scope"] == "SUBSCRIPTION" and g["adjacent"]):
                                    ok_all = False
                        ctx.ob("GRD-once", key("%s:GRD-once:complete" % VSHORT[var]) if v.family == "merge" else "%s:%s:%s:GRD-once:complete" % (v.name, lab, VSHORT[var]),
                               ok_all and n >= 1, "completion is guarded by the counter reaching the member count exactly (monotone unit-step RMW)" if ok_all else
                               "completion is not guarded by an exact once-guard on the completion counter", e.loc)
                        handled = True
                        continue
                    if v.family == "merge" and var == "Error":
                        lemma_rel_one(ctx, v, b, "Error", "SINK", "Error", "in", what="error-relayed")
                        _ord_flag_first(ctx, v, b, "Error", "merge-over-flag")
                        _merge_sibling_disposal(ctx, v, b)
                        handled = True
                        continue
                    if v.family == "flatten" and var == "Terminate":
                        _flatten_completion(ctx, v, b, tb)
                        handled = True
                        continue
                    if v.family == "flatten" and var == "Error":
                        lemma_rel_one(ctx, v, b, "Error", "SINK", "Error", "in", what="error-relayed")
                        _flatten_cross_disposal(ctx, v, b, "Error")
                        handled = True
                        continue
                    # single-upstream relays
                    lemma_rel_one(ctx, v, b, var, "SINK", var, "in" if var == "Error" else "none", what="terminal-relayed")
                    handled = True
            # --- take's self-completion inside the Data arm
            elif role == "UP" and arms == ["Data"] and e.variant == "Terminate":
                _take_completion(ctx, v, b, e)
                handled = True
            elif role == "THUNK" and v.family == "concat":
                _concat_completion(ctx, v, b, e)
                handled = True
            elif role == "THUNK" and v.family == "from_iter":
                _from_iter_completion(ctx, v, b, e)
                handled = True
            elif role == "ROOT" and v.family == "interval" and e.variant == "Error":
                # REL-xor (C01) shows refusal and greeting are exclusive; the refusal path returns at once
                probs = []
                for p in v.arm(b, "Handshake"):
                    for s in path_terminals(v, b, "Handshake", p):
                        later = [x for x in send_sig(v, b, "Handshake", p) if x[4] > s[4]]
                        if later:
                            probs.append("send after refusal")
                ctx.ob("REL-xor", key("H:REL-xor:refusal-final"), not probs, "the refusal is the only message of its path", e.loc)
                handled = True
            if not handled and not arms and _site_on_no_path(v, b, e):
                # the block of this send lies on no enumerated path of any arm of its handler: dead code in this body (the
                # other branch of a helper inlined at a call that fixes its argument, e.g. `end(Some(error))`)
                ctx.ob("CEN-terminal", key("CEN-terminal:dead-site:%s" % VSHORT.get(e.variant, e.variant)), True, "terminal send at a site no path of its handler reaches", e.loc)
            elif not handled:
                ctx.ob("CEN-terminal", key("CEN-terminal:%s-in-%s" % (VSHORT.get(e.variant, e.variant), "".join(VSHORT.get(a, "-") for a in arms))), False,
                       "terminal message to the sink at a site that is in no once-class (census, fail closed)", e.loc)
            else:
                ctx.ob("CEN-terminal", key("CEN-terminal:classified"), True, "terminal site classified", e.loc)
    ctx.floor("CEN-terminal", 24)
    ctx.floor("GRD-once", 1 + 2 * 78)


def _ord_flag_first(ctx, v, bid, variant, what):
    """ORD-flag-relay: the first visible effect of the arm is a store of `true` into an atomic flag, before every send."""
    probs = []
    for p in complete(v.arm(bid, variant)):
        i, e = first_visible(v, p)
        if e is None or not raises_flag(e):
            probs.append("first effect is %s" % (e.kind if e else "nothing"))
    ctx.ob("ORD-flag-relay", v.key(bid, variant, "ORD-flag-relay", what), not probs,
           "the over/end flag is set before anything is sent" if not probs else "; ".join(sorted(set(probs))[:2]), v.loc(bid))


def _take_completion(ctx, v, b, e):
    """take: Terminate to the sink inside UP.D: once-guard on the increment's own result, end flag, order."""
    probs = []
    n = 0
    for p in v.arm(b, "Data"):
        for s in send_sig(v, b, "Data", p):
            if s[3].site != e.site:
                continue
            n += 1
            idx = s[4]
            # (1) guarded by post(taken) == max, on the value the RMW itself returned
            g = None
            for (i, a, ev) in guards_before(p, idx):
                if a[0] == "cmp" and a[3] == "==":
                    for (L, R, sign) in ((a[1], a[2], 1), (a[2], a[1], -1)):
                        ct = counter_term(L)
                        if ct and ct[0] == "pre":
                            g = (ct, R, a[4] * sign)
                        elif L is not None and cas_validated_pre(p, L) is not None:
                            ce = cas_validated_pre(p, L)
                            g = (("pre", cell_key(ce.cell), ce.site, "fetch_add", ("const", "usize", "1_usize", 1)), R, a[4] * sign)
            if g is None:
                probs.append("completion not guarded by an equality on the increment's result")
            else:
                (ct, R, c) = g
                step = 1 if ct[3] in ("fetch_add", "fetch_update") else -1
                is_param = R is not None and R[0] == "param" and not v.P.bodies[R[1]].is_handler()
                if ct[3] == "fetch_update" and is_countdown_update(v, p, ct[2]):
                    # a counter of remaining slots: the last slot is the one whose update left 0 behind (pre == 1)
                    if not (R is None and c == 1):
                        probs.append("completion guard is not post(remaining) == 0")
                elif not (is_param and c + step == 0):
                    probs.append("completion guard is not post(counter) == max")
            # (2) end == false
            fl = flag_guard(p, idx, False)
            if not fl:
                probs.append("completion does not test the end flag")
            # (3) end := true before both sends, upstream Terminate before the sink's
            st = [i for i, x in ev_effects(p) if raises_flag(x) and fl and cell_key(x.cell) in fl]
            ups = [x for x in send_sig(v, b, "Data", p) if x[0] == "UPTB" and x[1] == "Terminate"]
            if not ups and st and st[0] < idx and tb_none_decided(v, p):
                pass        # the talkback cell was seen empty: dead while Data is arriving (stored at the greeting, never cleared)
            elif not st or not ups or not (st[0] < ups[0][4] < idx):
                probs.append("order is not: end.store(true); upstream Terminate; sink Terminate")
            # (4) after the data send of the same delivery
            ds = [x for x in send_sig(v, b, "Data", p) if x[0] == "SINK" and x[1] == "Data"]
            if not ds or not ds[0][4] < idx:
                probs.append("completion not after the nth datum")
    ctx.ob("GRD-once", v.key(b, "Data", "GRD-once", "self-completion"), not probs and n >= 1,
           "self-completion: post(taken)==max on the RMW result, end==false, end stored first, upstream told before the sink" if not probs else "; ".join(sorted(set(probs))[:3]), e.loc)


def _concat_completion(ctx, v, b, e):
    probs = []
    for p in v.arm(b, None):
        for s in send_sig(v, b, None, p):
            if s[3].site != e.site:
                continue
            ok = False
            for (i, a, ev) in guards_before(p, s[4]):
                if a[0] == "cmp" and a[3] == "==" and a[4] == 0:
                    ct = counter_term(a[1])
                    if ct and ct[0] == "cur" and a[2] is not None and _is_member_count(v, a[2]):
                        ok = True
            if not ok:
                probs.append("completion not guarded by index == member count")
            later = [x for x in send_sig(v, b, None, p) if x[4] > s[4]]
            if later:
                probs.append("send after completion")
    callers = thunk_callers(v, b)
    good = bool(callers) and all((v.op.roles.get(cb) == "UP" and cv == "Terminate") or (v.op.roles.get(cb) == "ROOT" and cv == "Handshake") for cb, cv, _ in callers)
    if not good:
        probs.append("`next` is called from %s" % sorted({"%s.%s" % (v.label(cb), VSHORT.get(cv, "-")) for cb, cv, _ in callers}))
    ctx.ob("GRD-cmp", v.key(b, None, "GRD-cmp", "completion-after-last-member"), not probs,
           "completion guarded by index == n; thunk called only from the member's Terminate arm and once from ROOT" if not probs else "; ".join(sorted(set(probs))[:3]), e.loc)


def _exhaustion_flags(p, idx):
    """Flags known to be raised when event idx of the path is reached because the iterator is exhausted: a flag tested true, or
    a flag stored with `x.is_none()` / true where this path decided that this very x (an iterator advance) is None."""
    out = set(flag_guard(p, idx, True))
    nones = []
    for (_, a, _) in guards_before(p, idx):
        if (a[0] == "discr" and a[2] == 0) or (a[0] == "opt" and a[2] == "none"):
            if any(x[0] == "call" and x[2] == "std::iter::Iterator::next" for x in walk(a[1])):
                nones.append(strip_refs(a[1]))
    if nones:
        for i, e in ev_effects(p):
            if i >= idx or e.kind != "atomic" or e.op != "store" or e.operand is None:
                continue
            o = e.operand
            if o[0] == "call" and o[2].endswith("::is_none") and o[3] and strip_refs(o[3][0]) in nones:
                out.add(cell_key(e.cell))
    return out


def strip_refs(e):
    while e is not None and e[0] in ("ref", "deref", "someof") and len(e) > 1 and isinstance(e[1], tuple):
        e = e[1]
    return e


def _from_iter_completion(ctx, v, b, e):
    probs = []
    for p in v.arm(b, None):
        for s in send_sig(v, b, None, p):
            if s[3].site != e.site:
                continue
            if not _exhaustion_flags(p, s[4]):
                probs.append("Terminate not guarded by the exhaustion flag")
            later = [x for x in send_sig(v, b, None, p) if x[4] > s[4]]
            if later:
                probs.append("send after Terminate in the same activation")
            its = [i for i, x in ev_effects(p) if x.kind == "iternext" and i > s[4]]
            if its:
                probs.append("iterator advanced after Terminate")
    # DOWN.P calls the loop only under exhaustion-flag == false
    fl_cells = set()
    for p in v.arm(b, None):
        for s in send_sig(v, b, None, p):
            if s[3].site == e.site:
                fl_cells |= _exhaustion_flags(p, s[4])
    for (cb, cv, ce) in thunk_callers(v, b):
        for p in v.arm(cb, cv, inline=0):
            for i, x in ev_effects(p):
                if x.kind == "thunk" and x.site == ce.site:
                    if not (set(flag_guard(p, i, False)) & fl_cells):
                        probs.append("loop called without testing the exhaustion flag")
    ctx.ob("GRD-flag", v.key(b, None, "GRD-flag", "completion-once"), not probs,
           "Terminate guarded by res_done, nothing after it; the loop is entered only while res_done is false" if not probs else "; ".join(sorted(set(probs))[:3]), e.loc)


def _flatten_completion(ctx, v, b, tb):
    """flatten UP.T / UP_INNER.T: Send(SINK,T) iff the *other* level's cell is None; else clear the own cell."""
    own = {k for k, lst in tb.items() if any(hh == b for hh, _ in lst)}
    other = {k for k in tb if k not in own}
    probs = []
    kinds = set()
    for p in returning(v.arm(b, "Terminate")):
        sig = send_sig(v, b, "Terminate", p)
        ts = [s for s in sig if s[0] == "SINK" and s[1] == "Terminate"]
        none_other = False
        for (i, a, ev) in guards_before(p, len(p.events)):
            ce = a[1] if a[0] in ("opt", "discr") else None
            if ce is not None and ce[0] == "cellload" and base_key(ce[1]) in other:
                if (a[0] == "opt" and a[2] == "none") or (a[0] == "discr" and a[2] != 1):
                    none_other = True
        if ts:
            kinds.add("complete")
            if not none_other:
                probs.append("completes without the other level being gone")
        else:
            kinds.add("wait")
            if none_other:
                probs.append("other level gone but no completion")
            cl = [e for i, e in ev_effects(p) if e.kind == "cell" and e.op == "store" and base_key(e.cell) in own and e.value[0] == "agg" and e.value[2] == "Option::None"]
            if not cl:
                probs.append("own cell not cleared on the waiting branch")
    ok = not probs and kinds == {"complete", "wait"}
    ctx.ob("REL-xor", v.key(b, "Terminate", "REL-xor", "complete-iff-other-level-gone"), ok,
           "completes exactly when the other level's cell is None, otherwise clears its own cell" if ok else "; ".join(sorted(set(probs))[:3]) or str(kinds), v.loc(b))


def _share_ended_upstream_not_disposed(ctx, v, d):
    """share, C04 ('no upstream is terminated after it ended by itself'): the talkback disposes upstream when it finds the list
    empty.  While the terminal fan-out runs, sinks that have not been served yet may still be disposed by their owners (legal:
    they have not heard the end).  So the list must not be empty during the terminal fan-out - unless the talkback's upstream
    Terminate is tied to having found and removed its own sink, or the upstream talkback cell is cleared before the fan-out."""
    probs = []
    n = 0
    for h in v.by_role("UP"):
        for var in ("Error", "Terminate"):
            for p in returning(v.arm(h, var)):
                effs = ev_effects(p)
                fan = [i for i, e in effs if e.kind == "send" and v.cls_of(e)[0] in ("SINKLIST", "SINK")]
                if not fan:
                    continue
                n += 1
                listk = {cell_key(recv_load(e)[1]) for i, e in effs if e.kind == "send" and v.cls_of(e)[0] == "SINKLIST" and recv_load(e)}
                clears = [i for i, e in effs if e.kind == "cell" and e.op in ("store", "swap") and cell_key(e.cell) in listk and i < fan[-1]]
                if not clears:
                    continue
                tbk = set(v.talkback_cells())
                tb_cleared = [i for i, e in effs if e.kind == "cell" and e.op in ("store", "swap") and base_key(e.cell) in tbk and i < fan[0]
                              and e.value is not None and e.value[0] == "agg" and e.value[2] == "Option::None"]
                if tb_cleared:
                    continue
                # is every upstream Terminate of the talkback guarded by `found`?
                guarded = True
                for dv in ("Error", "Terminate"):
                    for dp in returning(v.arm(d, dv)):
                        ups = [s for s in send_sig(v, d, dv, dp) if s[0] == "UPTB"]
                        for s2 in ups:
                            found = [a for (_, a, _) in guards_before(dp, s2[4]) if a[0] == "discr" and a[1][0] == "call" and a[1][2].endswith("::position") and a[2] == 1]
                            if not found:
                                guarded = False
                if not guarded:
                    probs.append("UP.%s empties the sink list before the terminal fan-out, and the talkback disposes upstream whenever it finds the list empty" % VSHORT[var])
    ctx.ob("ORD-clear-emit", "share:UP.ET:ORD:list-not-empty-during-terminal-fanout", not probs and n >= 2,
           "during the terminal fan-out the list still holds the sinks being served, so a talkback used meanwhile does not find it empty and does not dispose the ended upstream"
           if not probs else "; ".join(sorted(set(probs))), v.loc(d))


def _share_clear_after(ctx, v, b, var):
    probs = []
    for p in returning(v.arm(b, var)):
        st = [i for i, e in ev_effects(p) if e.kind == "cell" and e.op == "store"]
        if not st:
            probs.append("sink list not cleared after the terminal")
    ctx.ob("REL-fanout", v.key(b, var, "REL-fanout", "list-cleared"), not probs, "the sink list is cleared on every path of the terminal arm" if not probs else probs[0], v.loc(b))


def _share_fanout_live(ctx, v, b, var):
    """REL-bcast-live for share: a per-iteration liveness test (is this sink still in the current list?) before each send."""
    live = True
    for p in v.arm(b, var):
        for s in send_sig(v, b, var, p):
            if s[0] != "SINKLIST":
                continue
            # a fresh load of the list (or a flag) between the iteration step and the send
            it = [i for i, ev in ev_branches(p) if i < s[4] and ev[1][0] == "discr" and ev[1][1][0] == "call" and ev[1][1][2] == "std::iter::Iterator::next"]
            last_it = it[-1] if it else -1
            fresh = [e for i, e in ev_effects(p) if last_it < i < s[4] and ((e.kind == "cell" and e.op in ("load", "load_full")) or (e.kind == "atomic" and e.op == "load"))]
            if not fresh:
                live = False
    ctx.ob("REL-fanout", "share:UP.DET:REL-fanout:snapshot-without-liveness", live,
           "fan-out re-checks liveness per iteration" if live else
           "fan-out iterates a snapshot of the sink list: a sink detached (or everyone terminated) by a nested reaction still receives this message", v.loc(b))


# ============================================================================= shared: DOWN relays

def upstream_targets(v):
    """The things a DOWN handler must reach to dispose every live upstream: talkback cells (by base key) and,
    for cell-less relays (map, scan), the direct Handshake payload of the UP handler."""
    tb = v.talkback_cells()
    direct = []
    for h in v.by_role("UP", "UP_INNER"):
        stored = any(any(hh == h for hh, _ in lst) for lst in tb.values())
        if not stored:
            direct.append(h)
    return tb, direct


def lemma_down_relay(ctx, v, d, variant, want_variants, lemma="REL-bcast", what="all-upstreams"):
    """DOWN.<variant>: on every returning path every upstream talkback (cell or direct) is sent one of want_variants;
    cells through a Some-guard or expect.  merge: a loop over the whole cell vector; combine: every field once."""
    tb, direct = upstream_targets(v)
    probs = []
    paths = v.arm(d, variant)
    if v.family == "merge":
        # loop over all elements of the cell vector, each send guarded by its own load being Some
        n = 0
        for p in paths:
            for s in send_sig(v, d, variant, p):
                if s[0] != "UPTB":
                    continue
                n += 1
                if s[1] not in want_variants:
                    probs.append("relays %s" % s[1])
                ld = recv_load(s[3])
                if ld is None or not opt_guarded(p, s[4], ld):
                    probs.append("send not guarded by the member cell being Some")
                else:
                    base, sel = strip_cell(ld[1])
                    whole = False
                    if sel and sel[0] == "idx" and base_key(ld[1]) in tb:
                        ix = sel[1]
                        if ix[0] == "iterelem":
                            whole = True       # `for cell in cells.iter()`
                        elif ix[0] == "someof" and ix[1][0] == "call" and ix[1][2] == "std::iter::Iterator::next":
                            src = ix[1][3][0]  # `for k in 0..cells.len()` / `0..n`
                            if src[0] == "agg" and src[2].startswith("Range::") and src[3][0][0] == "const" and src[3][0][3] == 0:
                                hi = src[3][1]
                                whole = _is_member_count(v, hi) or (hi[0] == "call" and hi[2].endswith("::len") and hi[3] and base_key(hi[3][0]) == base_key(ld[1]))
                    if not whole:
                        probs.append("receiver is not an element of an iteration over the whole member vector")
        if n == 0:
            probs.append("no relay")
    else:
        for p in live(v, returning(paths)):
            sig = [s for s in send_sig(v, d, variant, p) if s[0] == "UPTB"]
            for k in tb:
                # one cell base may hold several member cells (combine: fields)
                sels = set()
                for (e2, b2) in v.cell_effects(k, kinds=("cell",)):
                    if e2.op == "store" and e2.value[0] == "agg" and e2.value[2] == "Option::Some":
                        sels.add(cell_key(e2.cell)[1])
                for sel in sels:
                    hit = [s for s in sig if recv_load(s[3]) is not None and cell_key(recv_load(s[3])[1]) == (k, sel)]
                    tested_none = any((a[0] in ("discr", "opt")) and a[1][0] == "cellload" and cell_key(a[1][1]) == (k, sel) and
                                      ((a[0] == "discr" and a[2] != 1) or (a[0] == "opt" and a[2] == "none")) for (_, a, _) in guards_before(p, len(p.events)))
                    if len(hit) == 1 and hit[0][1] in want_variants:
                        continue
                    if not hit and tested_none:
                        continue
                    probs.append("%s%s: %s" % (v.op.cells[k].name, "" if sel is None else "." + str(sel[1]), "sent %s" % [h[1] for h in hit] if hit else "not relayed to"))
            for h in direct:
                hit = [s for s in sig if s[5][1] == ("direct", h)]
                if not (len(hit) == 1 and hit[0][1] in want_variants):
                    probs.append("direct talkback of %s: %s" % (v.label(h), [x[1] for x in hit]))
    ok = not probs
    return ctx.ob(lemma, v.key(d, variant, lemma, what), ok,
                  "%s reaches every upstream talkback" % "/".join(VSHORT[w] for w in want_variants) if ok else "; ".join(sorted(set(probs))[:3]), v.loc(d))


# ============================================================================= C03

@prop("C03", "other",
      "Structural proof, for sequential histories under A3/A5/A6, that after the sink sent Terminate/Error the operator starts no "
      "delivery to it. PL-down: no talkback (DOWN) handler sends anything to the sink in any arm (from_iter only through its loop "
      "thunk, in the Pull arm). REL-bcast / REL-1:1: DOWN's Error and Terminate arms relay a terminal to every live upstream "
      "talkback (every cell Some-guarded or expect-guarded, merge over the whole vector, combine over every index), so that by A3 "
      "no upstream arm runs again. Self-initiated sends are each behind a flag that DOWN.E|T writes first (ORD-flag-relay) and the "
      "sender re-reads: take's completion (end), from_iter's loop (completed, per iteration and at DOWN entry), interval's task "
      "(one flag test after each sleep, no await between test and send), merge's subscribe loop and late-greeter arm (ended), share "
      "(the sink is removed from the list before anything else). Recorded exception: share's snapshot fan-out (KF-5).",
      axioms=["A3", "A5", "A6", "A8 (interval)"])
def C03(ctx, model, tier, models):
    census_operators(ctx, model)
    for v in views(model):
        if v.cls == "sink":
            continue
        downs = v.by_role("DOWN")
        ctx.ob("PL-down", "%s:PL-down:exists" % v.name, len(downs) == 1, "%d talkback handler(s)" % len(downs), v.loc(v.op.id))
        for d in downs:
            # PL-down
            bad = []
            for var in VARIANTS:
                for p in v.arm(d, var):
                    for s in send_sig(v, d, var, p):
                        if s[0] in ("SINK", "SINKLIST"):
                            inside_thunk = _inside_thunk(p, s[4])
                            if not (v.family == "from_iter" and var == "Pull" and inside_thunk):
                                bad.append("%s to the sink in DOWN.%s" % (s[1], VSHORT[var]))
            ctx.ob("PL-down", v.key(d, None, "PL-down"), not bad,
                   "the talkback never calls the sink (from_iter: only via its loop in the Pull arm)" if not bad else "; ".join(sorted(set(bad))[:3]), v.loc(d))
            # relays / flags in the terminal arms
            for var in ("Error", "Terminate"):
                if v.family in ("from_iter", "interval"):
                    _flag_only_arm(ctx, v, d, var)
                elif v.family == "share":
                    _share_detach(ctx, v, d, var)
                else:
                    want = ("Error", "Terminate")
                    lemma_down_relay(ctx, v, d, var, want)
        # self-initiated sends and their flags
        if v.family == "take":
            d = downs[0]
            for var in ("Error", "Terminate"):
                _ord_flag_first(ctx, v, d, var, "end-before-relay")
            for e, b, arms in terminal_sink_sends(v):
                if arms == ["Data"]:
                    _take_completion(ctx, v, b, e)
        if v.family == "merge":
            d = downs[0]
            for var in ("Error", "Terminate"):
                _ord_flag_first(ctx, v, d, var, "ended-before-relay")
            _merge_subscribe_loop(ctx, v)
            _merge_late_greeter(ctx, v)
        if v.family == "from_iter":
            _from_iter_disposal(ctx, v)
        if v.family == "interval":
            _interval_cycle(ctx, v)
        if v.family == "share":
            for h in v.by_role("UP"):
                for var in ("Data", "Error", "Terminate"):
                    _share_fanout_live_c03(ctx, v, h, var)
    ctx.floor("PL-down", 12)
    ctx.floor("REL-bcast", 2 * (8 + 12))


def _inside_thunk(path, idx):
    depth = 0
    for ev in path.events[:idx]:
        if ev[0] == "enter":
            depth += 1
        elif ev[0] == "leave":
            depth -= 1
    return depth > 0


def _flag_only_arm(ctx, v, d, var):
    """from_iter / interval DOWN.E|T: the arm stores `true` into a flag and sends nothing."""
    probs = []
    n = 0
    for p in returning(v.arm(d, var)):
        sends = [e for i, e in ev_effects(p) if e.kind == "send"]
        if sends:
            probs.append("arm sends")
        st = [e for i, e in ev_effects(p) if raises_flag(e)]
        already = flag_guard(p, len(p.events), True)
        if not st and not already:
            probs.append("a path neither sets the disposal flag nor found it set")
        n += 1
    ctx.ob("ORD-flag-relay", v.key(d, var, "ORD-flag-relay", "disposal-flag-set"), not probs and n,
           "disposal sets the flag (or finds it set) and sends nothing" if not probs else "; ".join(sorted(set(probs))), v.loc(d))


def _share_detach(ctx, v, d, var):
    """share DOWN.E|T: the sink is removed from the list (position by Arc::ptr_eq of this very sink, rcu removal)
    before anything is sent; upstream is told iff the list is then empty."""
    probs = []
    kinds = set()
    for p in returning(v.arm(d, var)):
        effs = ev_effects(p)
        rcu = [i for i, e in effs if e.kind == "cell" and e.op == "rcu"]
        sends = [(i, e) for i, e in effs if e.kind == "send"]
        pos = [a for (_, a, _) in guards_before(p, len(p.events)) if a[0] == "discr" and a[1][0] == "call" and a[1][2].endswith("::position")]
        if not pos:
            # the lookup may live inside the rcu closure itself (find-and-remove on the copied list: _share_detach_closures checks it)
            rc = [e for i, e in effs if e.kind == "cell" and e.op == "rcu" and e.closure and
                  any(x.kind == "hocall" and x.callee.endswith("::position") for x in v.all_effects(e.closure))]
            if len(rc) != 1:
                probs.append("position of the sink not looked up")
                continue
            found = True
        else:
            found = pos[0][2] == 1
        if found and not rcu:
            probs.append("sink found but not removed")
        if sends and rcu and sends[0][0] < rcu[0]:
            probs.append("upstream told before the sink was removed")
        empt = [a for (_, a, _) in guards_before(p, len(p.events)) if a[0] == "bool" and a[1][0] == "call" and a[1][2].endswith("::is_empty")]
        if not empt and not found:
            # this sink is not on the list any more (the source ended, or it was detached already): nothing to do, nothing is sent
            kinds.add("not-attached")
            if sends:
                probs.append("upstream told although this sink was not attached")
            continue
        if not empt:
            probs.append("emptiness of the list not tested")
            continue
        if empt[-1][2]:
            kinds.add("last")
            if [(v.cls_of(e)[0], e.variant) for _, e in sends] != [("UPTB", "Terminate")] and not (not sends and tb_none_decided(v, p)):
                probs.append("last detach does not send exactly one Terminate upstream")
        else:
            kinds.add("others-remain")
            if sends:
                probs.append("upstream told although sinks remain")
    ok = not probs and kinds - {"not-attached"} == {"last", "others-remain"}
    ctx.ob("REL-xor", v.key(d, var, "REL-xor", "detach-then-maybe-dispose"), ok,
           "detach removes the sink first and disposes upstream exactly when the list became empty" if ok else "; ".join(sorted(set(probs))[:3]) or str(kinds), v.loc(d))


def _merge_subscribe_loop(ctx, v):
    """merge ROOT.H: every subscribe is preceded, in the same iteration, by a test of the over-flag being false."""
    r = v.root
    probs = []
    n = 0
    for p in v.arm(r, "Handshake"):
        last_iter = -1
        for i, ev in enumerate(p.events):
            if ev[0] == "br" and ev[1][0] == "discr" and ev[1][1][0] == "call" and ev[1][1][2] == "std::iter::Iterator::next":
                last_iter = i
            if ev[0] == "eff" and ev[1].kind == "send" and ev[1].variant == "Handshake":
                n += 1
                fl = [j for j, a, _ in guards_before(p, i) if j > last_iter and a[0] == "bool" and flag_observation(a[1]) is not None and a[2] is False]
                if not fl:
                    probs.append("subscribe without testing the over-flag in the same iteration")
    ctx.ob("GRD-flag", v.key(r, "Handshake", "GRD-flag", "subscribe-only-while-live"), not probs and n,
           "each member is subscribed only after re-reading the over-flag" if not probs else probs[0], v.loc(r))


def _merge_late_greeter(ctx, v):
    """merge UP.H (FIX-3): if the over-flag is set the new talkback is sent Terminate at once and nothing else happens."""
    for h in v.by_role("UP"):
        probs = []
        kinds = set()
        for p in returning(v.arm(h, "Handshake")):
            effs = ev_effects(p)
            over = [a for (_, a, _) in guards_before(p, len(p.events)) if a[0] == "bool" and flag_observation(a[1]) is not None]
            if not over:
                probs.append("a path of the member's Handshake arm does not test the over-flag")
                continue
            first_test = None
            for i, a, ev in guards_before(p, len(p.events)):
                if a[0] == "bool" and flag_observation(a[1]) is not None:
                    first_test = i
                    break
            before = [e for i, e in effs if i < first_test and effect_visible(v.P, e) and not (e.kind == "atomic" and e.op == "load") and not e.tracing]
            if before:
                probs.append("state is touched before the over-flag is tested")
            if over[0][2] is True:
                kinds.add("over")
                vis = [(e.kind, e.get("variant")) for i, e in effs if i > first_test and effect_visible(v.P, e) and not e.tracing and not (e.kind == "atomic" and e.op == "load")]
                sends = [e for i, e in effs if e.kind == "send"]
                if not (len(sends) == 1 and sends[0].variant == "Terminate" and v.cls_of(sends[0]) == ("UPTB", ("direct", h)) and len(vis) == 1):
                    probs.append("late greeter is not simply sent Terminate (effects: %s)" % vis)
            else:
                kinds.add("live")
        ok = not probs and kinds == {"over", "live"}
        ctx.ob("GRD-flag", v.key(h, "Handshake", "GRD-flag", "late-greeter-disposed"), ok,
               "a member that greets after the output is over is sent Terminate at once and not registered" if ok else "; ".join(sorted(set(probs))[:3]) or str(kinds), v.loc(h))


def _from_iter_disposal(ctx, v):
    d = v.by_role("DOWN")[0]
    # DOWN returns first thing under `completed`
    probs = []
    for var in VARIANTS:
        for p in complete(v.arm(d, var, inline=0)):
            i, e = first_visible(v, p)
            if e is None or not (e.kind == "atomic" and e.op == "load"):
                probs.append("DOWN.%s does not start by reading the disposal flag" % VSHORT[var])
                continue
            g = [a for (_, a, _) in guards_before(p, len(p.events))]
            if not g or g[0][0] != "bool":
                probs.append("DOWN.%s does not branch on the disposal flag first" % VSHORT[var])
                continue
            if g[0][2] is True:
                rest = [x for j, x in ev_effects(p) if j > i and effect_visible(v.P, x) and not x.tracing]
                if rest or p.end != "return":
                    probs.append("DOWN.%s does something although disposed" % VSHORT[var])
    ctx.ob("GRD-flag", v.key(d, None, "GRD-flag", "disposed-talkback-inert"), not probs,
           "a disposed talkback returns at once" if not probs else "; ".join(sorted(set(probs))[:3]), v.loc(d))
    # the loop re-reads the flag before every iteration's sends
    for t in v.by_role("THUNK"):
        sends_in_thunk = [e for e in v.all_effects(t) if e.kind == "send"]
        if not sends_in_thunk:
            continue
        probs = []
        # which cell does DOWN.E|T set?
        flag_cells = set()
        for var in ("Error", "Terminate"):
            for p in v.arm(d, var):
                for i, e in ev_effects(p):
                    if raises_flag(e):
                        flag_cells.add(cell_key(e.cell))
        for p in v.arm(t, None):
            last_send = -1
            for i, ev in enumerate(p.events):
                if ev[0] == "eff" and ev[1].kind == "send":
                    fl = [j for j, a, _ in guards_before(p, i) if j > last_send and a[0] == "bool" and flag_observation(a[1]) is not None and flag_observation(a[1]) in flag_cells and a[2] is False]
                    if not fl:
                        probs.append("a send of the loop is not preceded by a fresh test of the disposal flag")
                    last_send = i
        ctx.ob("GRD-flag", v.key(t, None, "GRD-flag", "loop-rereads-disposal-flag"), not probs and flag_cells,
               "every send of the loop follows a fresh read of `completed` == false" if not probs else probs[0], v.loc(t))


def _interval_cycle(ctx, v):
    """ORD-sleep-check-send on the task's CFG: between task entry / a previous send and the next send there is exactly one
    sleep, then (after the await completed) one test of the disposal flag being false, and no yield between test and send."""
    tasks = v.by_role("TASK")
    d = v.by_role("DOWN")[0]
    flag_cells = set()
    for var in ("Error", "Terminate"):
        for p in v.arm(d, var):
            for i, e in ev_effects(p):
                if raises_flag(e):
                    flag_cells.add(cell_key(e.cell))
    for t in tasks:
        probs = []
        n = 0
        for p in v.arm(t, None):
            last = -1
            for i, ev in enumerate(p.events):
                if ev[0] == "eff" and ev[1].kind == "send":
                    n += 1
                    seg = p.events[last + 1:i]
                    sleeps = [x for x in seg if x[0] == "eff" and x[1].kind == "sleep"]
                    if len(sleeps) != 1:
                        probs.append("%d sleeps between consecutive sends" % len(sleeps))
                    # flag test after the last yield / poll of the segment
                    idx_last_wait = max([j for j, x in enumerate(seg) if x[0] == "yield" or (x[0] == "eff" and x[1].kind == "poll")] + [-1])
                    tests = [j for j, x in enumerate(seg) if x[0] == "br" and norm_pred(x[1], x[2])[0] == "bool" and flag_observation(norm_pred(x[1], x[2])[1]) is not None
                             and flag_observation(norm_pred(x[1], x[2])[1]) in flag_cells and norm_pred(x[1], x[2])[2] is False]
                    if not tests or tests[-1] < idx_last_wait:
                        probs.append("disposal flag not tested between the completed sleep and the send")
                    if sleeps:
                        per = sleeps[0][1].period
                        if not (per[0] == "param" and not v.P.bodies[per[1]].is_handler()):
                            probs.append("sleep duration is not the factory's period")
                    last = i
        # after a positive flag test the task ends without sending
        for p in v.arm(t, None):
            for i, a, ev in guards_before(p, len(p.events)):
                if a[0] == "bool" and flag_observation(a[1]) is not None and flag_observation(a[1]) in flag_cells and a[2] is True:
                    later = [x for x in p.events[i:] if x[0] == "eff" and x[1].kind in ("send", "sleep")]
                    if later:
                        probs.append("task keeps going after seeing the disposal flag")
        ctx.ob("ORD-sleep-check-send", v.key(t, None, "ORD-sleep-check-send"), not probs and n and flag_cells,
               "every emission is preceded by exactly one sleep(period) and a fresh disposal test with no await in between" if not probs else "; ".join(sorted(set(probs))[:3]), v.loc(t))


def _share_fanout_live_c03(ctx, v, h, var):
    if var in ("Error", "Terminate"):
        return
    live = True
    n = 0
    for p in v.arm(h, var):
        for s in send_sig(v, h, var, p):
            if s[0] != "SINKLIST":
                continue
            n += 1
            it = [i for i, ev in ev_branches(p) if i < s[4] and ev[1][0] == "discr" and ev[1][1][0] == "call" and ev[1][1][2] == "std::iter::Iterator::next"]
            last_it = it[-1] if it else -1
            fresh = [e for i, e in ev_effects(p) if last_it < i < s[4] and ((e.kind == "cell" and e.op in ("load", "load_full")) or (e.kind == "atomic" and e.op == "load"))]
            if not fresh:
                live = False
    if n:
        ctx.ob("REL-fanout", "share:UP.DET:REL-fanout:snapshot-without-liveness", live,
               "fan-out re-checks liveness per iteration" if live else
               "fan-out iterates a snapshot of the sink list: a sink that detached during this fan-out still receives the datum", v.loc(h))


# ============================================================================= C04

def subscribe_sends(v):
    return [(e, b) for e, b in v.sends() if e.variant == "Handshake" and v.cls_of(e)[0] in ("UPSRC", "UPSRC_INNER")]


def upstream_terminal_sends(v):
    return [(e, b) for e, b in v.sends() if e.variant in ("Error", "Terminate") and v.cls_of(e)[0] == "UPTB"]


@prop("C04", "other",
      "Structural proof, per operator and arity, of the sink-side discipline toward upstreams (sequential histories, A1-A6): "
      "(a) DOWN's Error/Terminate arms relay a terminal to every live upstream talkback (REL-bcast, as C03), take's completion "
      "and the error arms of merge/flatten dispose the remaining upstreams first; (b) the pass-through operators relay the sink's "
      "Error as Error carrying the same value (REL-1:1 with payload provenance), flatten and share convert to Terminate (tabulated); "
      "(c) cell hygiene for every talkback cell of an operator with several upstreams over a subscription's life (merge, combine, "
      "concat, flatten, share): every send through the cell is Some-guarded and the cell is cleared in the arm in which that "
      "upstream ends or is disposed, before anything else is sent, unless that arm ends the output on every path; (d) PL-sub: the "
      "complete list of subscribe sites, none in an unguarded loop (merge: range over distinct indices with the over-flag re-read; "
      "concat: monotone index; combine: one per member; share: list length == 1 after the push); (e) no subscription after the "
      "output is over (merge flag, concat's `next` only from a member's Terminate); (f) PL-term-up census of upstream terminal "
      "sites, REL-bcast-live (merge's Pull broadcast re-reads the over-flag per iteration), for_each silent in E/T and pulling "
      "only in H and D. The hygiene lemma fails at four cells on this tree, each a recorded finding: KF-2 combine, KF-3 concat, "
      "KF-4 flatten (switch window), KF-8 share.",
      axioms=["A1", "A2", "A3", "A5", "A6"])
def C04(ctx, model, tier, models):
    census_operators(ctx, model)
    for v in views(model):
        P = v.P
        downs = v.by_role("DOWN")
        # ---- (a)/(b) relays of the sink's terminal
        for d in downs:
            if v.family in ("from_iter", "interval"):
                continue
            if v.family == "share":
                _share_detach(ctx, v, d, "Error")
                _share_detach(ctx, v, d, "Terminate")
                _share_ended_upstream_not_disposed(ctx, v, d)
                continue
            passthrough = v.family != "flatten"
            lemma_down_relay(ctx, v, d, "Terminate", ("Terminate",), what="terminate-relayed")
            if passthrough:
                lemma_down_relay(ctx, v, d, "Error", ("Error",), what="error-relayed-as-error")
                # payload provenance: the incoming error itself
                bad = []
                n = 0
                for p in v.arm(d, "Error"):
                    for s in send_sig(v, d, "Error", p):
                        if s[0] == "UPTB" and s[1] == "Error":
                            n += 1
                            if s[2] != "in":
                                bad.append(s[3].loc)
                ctx.ob("REL-1:1", v.key(d, "Error", "REL-1:1", "same-error-value"), not bad and n,
                       "the sink's error value is handed on unchanged" if not bad else "error payload is not the incoming binding at %s" % bad[:2], v.loc(d))
            else:
                lemma_down_relay(ctx, v, d, "Error", ("Terminate",), what="error-relayed-as-terminate")
        # ---- (a) early completion / failure disposes the rest
        if v.family == "take":
            for e, b, arms in terminal_sink_sends(v):
                if arms == ["Data"]:
                    _take_completion(ctx, v, b, e)
        if v.family == "merge":
            for h in v.by_role("UP"):
                _merge_sibling_disposal(ctx, v, h)
        if v.family == "flatten":
            for h in v.by_role("UP", "UP_INNER"):
                _flatten_cross_disposal(ctx, v, h, "Error")
        # ---- (c) hygiene
        if v.family in ("merge", "combine", "concat", "flatten", "share"):
            _cell_hygiene(ctx, v)
        # ---- (d) subscribe sites
        subs = subscribe_sends(v)
        for e, b in subs:
            role = v.op.roles.get(b)
            arms = site_arms(v, b, e)
            in_loop = False
            for var in (VARIANTS if P.bodies[b].is_handler() else [None]):
                for p in v.arm(b, var, inline=0):
                    if len([1 for _, x in ev_effects(p) if x.site == e.site]) > 1:
                        in_loop = True
            ok, why = False, ""
            if v.family == "merge":
                ok = role == "ROOT" and arms == ["Handshake"] and in_loop
                # the loop ranges over distinct indices 0..n and indexes the member collection with the loop variable
                rng = _range_loops(v, b, "Handshake")
                ok = ok and len(rng) == 1 and all(lo[0] == "const" and lo[3] == 0 and _is_member_count(v, hi) for lo, hi in rng)
                why = "one subscribe per index of 0..n in ROOT.H"
            elif v.family == "concat":
                ok = role == "THUNK" and not in_loop
                why = "subscribe in thunk `next`, indexed by the monotone member index"
            elif v.family == "flatten" and v.cls_of(e)[0] == "UPSRC_INNER":
                ok = role == "UP" and arms == ["Data"] and not in_loop
                why = "inner source subscribed once per outer datum"
            elif v.family == "share":
                ok = role == "ROOT" and arms == ["Handshake"] and not in_loop and _share_len_guard(v, b, e)
                why = "subscribe guarded by list length == 1 after the push"
            elif v.cls == "sink":
                ok = role == "APPLICATION" and not in_loop
                why = "one subscription per application"
            else:
                ok = role == "ROOT" and arms == ["Handshake"] and not in_loop
                why = "one subscribe in ROOT.H"
            ctx.ob("PL-sub", v.key(b, None, "PL-sub", "site"), ok, why + ("" if ok else " - VIOLATED (role %s, arms %s, loop %s)" % (role, arms, in_loop)), e.loc)
        expected = {"combine": len(v.by_role("UP")), "flatten": 2}.get(v.family, 1)
        if v.family in ("from_iter", "interval"):
            expected = 0
        ctx.ob("PL-sub", "%s:PL-sub:count" % v.name, len(subs) == expected, "%d subscribe site(s), expected %d" % (len(subs), expected), v.loc(v.op.id))
        # ---- (e)
        if v.family == "merge":
            _merge_subscribe_loop(ctx, v)
        if v.family == "concat":
            for t in v.by_role("THUNK"):
                if any(e.kind == "send" for e in v.all_effects(t)):
                    callers = thunk_callers(v, t)
                    good = bool(callers) and all((v.op.roles.get(cb) == "UP" and cv == "Terminate") or (v.op.roles.get(cb) == "ROOT" and cv == "Handshake") for cb, cv, _ in callers)
                    ctx.ob("PL-sub", v.key(t, None, "PL-sub", "next-called-only-on-completion"), good,
                           "`next` is called from %s" % sorted({"%s.%s" % (v.label(cb), VSHORT.get(cv, "-")) for cb, cv, _ in callers}), v.loc(t))
        # ---- (f) upstream terminal site census, live broadcast, for_each
        for e, b in upstream_terminal_sends(v):
            role = v.op.roles.get(b)
            arms = site_arms(v, b, e)
            ok = False
            if role == "DOWN" and set(arms) <= {"Error", "Terminate"}:
                ok = True
            elif v.family == "take" and role == "UP" and arms == ["Data"]:
                ok = True
            elif v.family == "merge" and role == "UP" and arms in (["Error"], ["Handshake"]):
                ok = True
            elif v.family == "flatten" and role in ("UP", "UP_INNER") and set(arms) <= {"Data", "Error"}:
                ok = True
            ctx.ob("PL-term-up", v.key(b, None, "PL-term-up", "%s-in-%s" % (VSHORT[e.variant], "".join(VSHORT[a] for a in arms))), ok,
                   "upstream terminal site in %s arms %s" % (v.label(b), arms), e.loc)
        if v.family == "merge":
            _merge_pull_live(ctx, v)
        if v.cls == "sink":
            for h in v.by_role("UP"):
                lemma_rel_silent(ctx, v, h, "Error")
                lemma_rel_silent(ctx, v, h, "Terminate")
                bad = []
                for var in VARIANTS:
                    for p in v.arm(h, var):
                        for s in send_sig(v, h, var, p):
                            if not (s[1] == "Pull" and var in ("Handshake", "Data") and s[0] == "UPTB"):
                                bad.append("%s in %s" % (s[1], VSHORT[var]))
                ctx.ob("PL-pull", v.key(h, None, "PL-pull", "sink-sends-only-pull"), not bad, "the sink only pulls, in its Handshake and Data arms" if not bad else str(bad), v.loc(h))
    ctx.floor("PL-sub", 12 + 78)
    ctx.floor("PL-term-up", 24)
    ctx.floor("REL-bcast", 2 * (8 + 12))


def _share_len_guard(v, b, e):
    for p in v.arm(b, "Handshake"):
        for i, x in ev_effects(p):
            if x.site != e.site:
                continue
            rcu = [j for j, y in ev_effects(p) if y.kind == "cell" and y.op == "rcu" and j < i]
            # len == 1, or len < 2 (the sink was pushed just before, so len >= 1)
            g = [(j, a) for j, a, _ in guards_before(p, i) if a[0] == "cmp" and ((a[3] == "==" and a[4] == 1) or (a[3] == "<" and a[4] == 2)) and a[2] is None
                 and a[1] is not None and a[1][0] == "call" and a[1][2].endswith("::len")]
            if not g or not rcu or not (rcu[0] < g[0][0]):
                return False
    return True


def _merge_pull_live(ctx, v):
    """REL-bcast-live (FIX-4): in DOWN.P every Pull of the broadcast follows, in the same iteration, a test of the over-flag."""
    for d in v.by_role("DOWN"):
        probs = []
        n = 0
        for p in v.arm(d, "Pull"):
            last_iter = -1
            for i, ev in enumerate(p.events):
                if ev[0] == "br" and ev[1][0] == "discr" and ev[1][1][0] == "call" and ev[1][1][2] == "std::iter::Iterator::next":
                    last_iter = i
                if ev[0] == "eff" and ev[1].kind == "send":
                    n += 1
                    fl = [j for j, a, _ in guards_before(p, i) if j > last_iter and a[0] == "bool" and flag_observation(a[1]) is not None and a[2] is False]
                    if not fl:
                        probs.append("a member is pulled without re-reading the over-flag")
            # once the flag is seen set, no further pull on that path
            for i, a, ev in guards_before(p, len(p.events)):
                if a[0] == "bool" and flag_observation(a[1]) is not None and a[2] is True:
                    if [x for x in p.events[i:] if x[0] == "eff" and x[1].kind == "send"]:
                        probs.append("broadcast continues after the over-flag was seen")
        ctx.ob("REL-bcast-live", v.key(d, "Pull", "REL-bcast-live"), not probs and n,
               "the Pull broadcast re-reads the over-flag before each member" if not probs else probs[0], v.loc(d))


def _cell_hygiene(ctx, v):
    """(c): per talkback cell base: all sends through it are Some-guarded; the member's own T/E arm clears it before anything
    else is sent unless the arm ends the output; an arm that disposes the cell's content and goes on clears it first."""
    tb = v.talkback_cells()
    for k, members in sorted(tb.items(), key=lambda kv: str(kv[0])):
        cname = v.op.cells[k].name or "cell"
        probs = []
        # every send through the cell is guarded by the load being Some
        for b in v.op.bodies:
            body = v.P.bodies[b]
            for var in (VARIANTS if body.is_handler() else [None]):
                for p in v.arm(b, var, inline=0):
                    for s in send_sig(v, b, var, p):
                        ld = recv_load(s[3])
                        if s[0] == "UPTB" and ld is not None and base_key(ld[1]) == k:
                            # a pull / terminal through a cell that was stored on this very path just before is fine (greeting arms)
                            stored_here = any(e.kind == "cell" and e.op == "store" and cell_key(e.cell) == cell_key(ld[1]) and i < s[4] for i, e in ev_effects(p))
                            if not opt_guarded(p, s[4], ld) and not stored_here:
                                probs.append("send of %s through %s in %s.%s is not Some-guarded" % (s[1], cname, v.generic_label(b), VSHORT.get(var, "-")))
        # the member's own end clears the cell (or ends the output)
        for (h, st) in members:
            sel = cell_key(st.cell)[1]
            for var in ("Terminate", "Error"):
                for p in returning(v.arm(h, var)):
                    sig = send_sig(v, h, var, p)
                    ends_output = any(s[0] in ("SINK", "SINKLIST") and (s[1] in ("Error", "Terminate") or s[1] == "INCOMING") for s in sig)
                    if ends_output and v.family != "share":
                        continue
                    cleared = [i for i, e in ev_effects(p) if e.kind == "cell" and e.op == "store" and cell_key(e.cell) == (k, sel) and e.value[0] == "agg" and e.value[2] == "Option::None"]
                    first_send = min([s[4] for s in sig] + [10 ** 9])
                    if not cleared or cleared[0] > first_send:
                        probs.append("%s is not cleared when its upstream ends (%s.%s)" % (cname, v.generic_label(h), VSHORT[var]))
        crole = "tbcell[%s]" % "+".join(sorted({v.generic_label(h) for h, _ in members}))
        key = "%s:%s:cell-hygiene" % (v.family, crole)
        switch_probs = []
        # an arm that disposes the content and continues (flatten's switch) clears the cell before going on
        for b in v.op.bodies:
            body = v.P.bodies[b]
            if not body.is_handler() or v.op.roles.get(b) == "DOWN":
                continue
            for var in VARIANTS:
                for p in returning(v.arm(b, var)):
                    sig = send_sig(v, b, var, p)
                    for s in sig:
                        ld = recv_load(s[3])
                        if s[0] == "UPTB" and s[1] in ("Terminate", "Error") and ld is not None and base_key(ld[1]) == k:
                            ends_output = any(x[0] in ("SINK", "SINKLIST") and x[1] in ("Error", "Terminate") for x in sig)
                            if ends_output:
                                continue
                            later = [x for x in sig if x[4] > s[4]]
                            cleared = [i for i, e in ev_effects(p) if e.kind == "cell" and e.op == "store" and base_key(e.cell) == k and e.value[0] == "agg" and e.value[2] == "Option::None" and i > s[4]]
                            if later and (not cleared or cleared[0] > later[0][4]):
                                switch_probs.append("%s keeps the disposed talkback while %s.%s goes on to %s" % (cname, v.generic_label(b), VSHORT[var], later[0][1]))
        ctx.ob("cell-hygiene", key, not probs, "cell %s: guarded sends, cleared at its upstream's end" % cname if not probs else "; ".join(sorted(set(probs))[:4]), None)
        if v.family == "flatten":
            ctx.ob("cell-hygiene", "%s:%s:cell-hygiene-switch" % (v.family, crole), not switch_probs,
                   "cell %s is cleared when its content is disposed mid-stream" % cname if not switch_probs else "; ".join(sorted(set(switch_probs))[:3]), None)


# ============================================================================= transfer lemmas (C07, C06, C14)

def is_factory_param(v, e):
    return e is not None and e[0] == "param" and not v.P.bodies[e[1]].is_handler()


def closure_returns(v, cid):
    """[(guards, returned expr)] per returning path of a helper closure.  `cond.then(|| x)` / `cond.then_some(x)` as the returned
    value count as the two returns they stand for: Some(x) under cond, None under its negation."""
    out = []
    for p in v.arm(cid, None, inline=0):
        if p.end != "return":
            continue
        rets = [ev[1] for ev in p.events if ev[0] == "ret"]
        gs = [a for (_, a, _) in guards_before(p, len(p.events))]
        r = rets[-1] if rets else None
        if r is not None and r[0] == "call" and r[2].endswith(("bool>::then", "bool>::then_some")) and len(r[3]) == 2:
            val = None
            if r[2].endswith("then_some"):
                val = r[3][1]
            elif r[3][1][0] == "agg" and r[3][1][1] == "closure" and r[3][1][2] in v.P.bodies:
                cb = v.P.bodies[r[3][1][2]]
                straight = all(blk["term"]["k"] not in ("switch", "yield") for blk in cb.blocks.values() if not blk["cleanup"])
                calls = [blk for blk in cb.blocks.values() if not blk["cleanup"] and blk["term"]["k"] == "call"]
                if straight and not calls:
                    val = v.P.link(cb.origin_local(0))
            if val is not None:
                out.append((gs + [norm_pred(r[3][0], 1)], ("agg", "adt", "Option::Some", (val,))))
                out.append((gs + [norm_pred(r[3][0], 0)], ("agg", "adt", "Option::None", ())))
                continue
        out.append((gs, r))
    return out


def claim_closure_ok(v, eff):
    """The closure of a fetch_update is `t < max => Some(t + 1), else None` with max a factory parameter."""
    if not eff.closure:
        return False
    rets = closure_returns(v, eff.closure)
    okc = len(rets) == 2
    for gs, r in rets:
        cm = [g for g in gs if g[0] == "cmp"]
        if len(cm) != 1:
            return False
        g = cm[0]
        if not (g[1] is not None and g[1][0] == "param" and g[1][1] == eff.closure and is_factory_param(v, g[2])):
            return False
        if g[3] == "<" and g[4] == 0:
            if not (r is not None and r[0] == "agg" and r[2] == "Option::Some" and lin(r[3][0]) == (g[1], 1)):
                return False
        elif g[3] == ">=" and g[4] == 0:
            if not (r is not None and r[0] == "agg" and r[2] == "Option::None"):
                return False
        else:
            return False
    return okc


def countdown_closure_ok(v, eff):
    """The closure of a fetch_update on a counter of remaining slots: `r >= 1 => Some(r - 1), else None` (`r.checked_sub(1)`)."""
    if not eff.closure:
        return False
    rets = closure_returns(v, eff.closure)
    if len(rets) != 2:
        return False
    seen = set()
    for gs, r in rets:
        cm = [g for g in gs if g[0] == "cmp"]
        if len(cm) != 1:
            return False
        g = cm[0]
        if not (g[1] == ("param", eff.closure, 2) and g[2] is None and g[4] == 1):
            return False
        if g[3] == ">=":
            if not (r is not None and r[0] == "agg" and r[2] == "Option::Some" and lin(r[3][0]) == (g[1], -1)):
                return False
            seen.add("some")
        elif g[3] == "<":
            if not (r is not None and r[0] == "agg" and r[2] == "Option::None"):
                return False
            seen.add("none")
        else:
            return False
    return seen == {"some", "none"}


def take_counts_down(v, h):
    return any(e.kind == "atomic" and e.op == "fetch_update" and countdown_closure_ok(v, e) for e in v.all_effects(h))


def is_countdown_update(v, p, site):
    for _, e in ev_effects(p):
        if e.kind == "atomic" and e.site == site and e.op == "fetch_update":
            return countdown_closure_ok(v, e)
    return False


def cas_claim_path(v, p, arm_uses_cas=False):
    """A hand-written claim loop on one path: `cur = c.load(); loop { if cur >= max { refuse }; match c.compare_exchange(cur, cur + 1)
    { Ok(_) => admitted with cur + 1, Err(actual) => cur = actual } }`.  Returns None if neither the path nor its arm has a
    compare_exchange, else (admitted, problems, cell key).  Every CAS must (a) expect the latest observation of the counter (the
    initial load, or the value the previous failed CAS handed back), (b) install exactly that observation plus one, (c) be
    preceded, after that observation was made, by the test `observation < max` with max a factory parameter; a path that does
    not admit must end on `latest observation >= max` - a failed CAS is an observation, not a refusal."""
    evs = p.events
    cas = [(i, ev[1]) for i, ev in enumerate(evs) if ev[0] == "eff" and ev[1].kind == "atomic" and ev[1].op in ("compare_exchange", "compare_exchange_weak")]
    if not cas and not arm_uses_cas:
        return None
    probs = []
    admitted = False
    cellk = cell_key(cas[0][1].cell) if cas else None
    obs = None          # (expr, event index at which it was observed)
    first = cas[0][0] if cas else len(evs)
    loads = [(i, ev[1]) for i, ev in enumerate(evs[:first]) if ev[0] == "eff" and ev[1].kind == "atomic" and ev[1].op == "load"
             and (cellk is None or cell_key(ev[1].cell) == cellk)]
    if loads:
        li, le = loads[-1]
        obs = (("aload", le.cell, le.site), li)
        cellk = cellk or cell_key(le.cell)
    for k, (i, e) in enumerate(cas):
        if cell_key(e.cell) != cellk:
            probs.append("compare_exchange on two different cells")
            continue
        exp = strip_refs(resolve_phis(p, i, e.operand)) if e.operand is not None else None
        new = resolve_phis(p, i, e.operand2) if e.get("operand2") is not None else None
        if obs is None or exp is None or exp != obs[0]:
            probs.append("a compare_exchange does not expect the latest observation of the counter")
            continue
        if new is None or lin(new) != (obs[0], 1):
            probs.append("a compare_exchange does not install its expected value plus one")
        g = [1 for j, ev in enumerate(evs[:i]) if j > obs[1] and ev[0] == "br" and (lambda a: a[0] == "cmp" and a[1] == obs[0] and a[3] == "<" and a[4] == 0 and is_factory_param(v, a[2]))(norm_pred(ev[1], ev[2]))]
        if not g:
            probs.append("a claim is attempted without re-testing the bound on the value it is based on")
        # the outcome of this very occurrence: the next decision on this CAS's result
        out = None
        for j in range(i + 1, len(evs)):
            ev = evs[j]
            if ev[0] == "br":
                a = norm_pred(ev[1], ev[2])
                if a[0] == "discr" and a[1][0] == "rmw" and a[1][4] == e.site:
                    out = (a[2], j)
                    break
            if ev[0] == "eff" and ev[1].kind == "atomic" and ev[1].site == e.site:
                break
        if out is None:
            if p.end != "cut":
                probs.append("the result of a compare_exchange is not examined")
            continue
        if out[0] == 0:
            admitted = True
            if k != len(cas) - 1:
                probs.append("a second claim after a successful one")
        else:
            rm = ("rmw", e.cell, e.op, ("unit",), e.site)
            obs = (("field", ("downcast", rm, "Err"), 0), out[1])
    if not admitted and p.end == "return":
        fin = [1 for j, ev in enumerate(evs) if obs is not None and j > obs[1] and ev[0] == "br" and
               (lambda a: a[0] == "cmp" and a[1] == obs[0] and a[3] == ">=" and a[4] == 0 and is_factory_param(v, a[2]))(norm_pred(ev[1], ev[2]))]
        if not fin:
            probs.append("a lost compare_exchange is treated as a refusal: the delivery is dropped although the bound was not seen reached")
    return (admitted, probs, cellk)


def cas_validated_pre(p, base):
    """Is `base` an observation of a counter that a successful compare_exchange(base, base + 1) on this path confirmed as the
    value it replaced?  Then base is the pre-value of a unit increment, exactly like the result of fetch_add(1).  The outcome is
    taken per occurrence: in a retry loop the same call site fails with one expected value and succeeds with another."""
    evs = p.events
    for i, ev in enumerate(evs):
        if ev[0] != "eff":
            continue
        e = ev[1]
        if not (e.kind == "atomic" and e.op in ("compare_exchange", "compare_exchange_weak") and e.operand is not None):
            continue
        exp = strip_refs(resolve_phis(p, i, e.operand))
        new = resolve_phis(p, i, e.operand2) if e.get("operand2") is not None else None
        if exp != base or new is None or lin(new) != (base, 1):
            continue
        for j in range(i + 1, len(evs)):
            x = evs[j]
            if x[0] == "eff" and x[1].kind == "atomic" and x[1].site == e.site:
                break       # the next attempt at the same site: this occurrence's result was not examined in between
            if x[0] == "br":
                a = norm_pred(x[1], x[2])
                if a[0] == "discr" and a[1][0] == "rmw" and a[1][4] == e.site:
                    if a[2] == 0:
                        return e
                    break
    return None


def lemma_take_admission(ctx, v, h):
    """GRD-cmp + ATM-no-cta for take's Data arm: the datum is forwarded iff the atomic update of the counter itself admitted it
    (fetch_update whose closure yields Some(t+1) iff t < max, or a comparison `pre < max` on the value an RMW returned)."""
    probs = []
    n = 0
    cellk = None
    arm_uses_cas = any(e.kind == "atomic" and e.op in ("compare_exchange", "compare_exchange_weak") and "Data" in site_arms(v, h, e) for e in v.all_effects(h))
    countdown = False
    for p in live(v, returning(v.arm(h, "Data"))):
        ds = [s for s in send_sig(v, h, "Data", p) if s[0] == "SINK" and s[1] == "Data"]
        if len(ds) > 1:
            probs.append("two data sends on one path")
        admitted = None
        cc = cas_claim_path(v, p, arm_uses_cas)
        if cc is not None:
            admitted, cprobs, cellk = cc
            probs.extend(cprobs)
            n += 1
            if admitted and len(ds) != 1:
                probs.append("admitted datum not forwarded exactly once")
            elif not admitted and ds:
                probs.append("datum forwarded although not admitted")
            if ds and ds[0][2] != "in":
                probs.append("forwarded datum is not the incoming one")
            continue
        for (i, a, ev) in guards_before(p, len(p.events)):
            if a[0] == "discr" and a[1][0] == "rmw" and a[1][2] in ("fetch_update", "compare_exchange", "compare_exchange_weak"):
                admitted = (a[2] == 0)
                cellk = cell_key(a[1][1])
                eff = [e for _, e in ev_effects(p) if e.kind == "atomic" and e.site == a[1][4]]
                if eff and eff[0].closure:
                    rets = closure_returns(v, eff[0].closure)
                    okc = len(rets) == 2
                    for gs, r in rets:
                        cm = [g for g in gs if g[0] == "cmp"]
                        if len(cm) != 1:
                            okc = False
                            continue
                        g = cm[0]
                        param_ok = g[1] is not None and g[1][0] == "param" and g[1][1] == eff[0].closure and is_factory_param(v, g[2])
                        if not param_ok:
                            okc = False
                        elif g[3] == "<" and g[4] == 0:
                            # t < max  => Some(t + 1)
                            if not (r is not None and r[0] == "agg" and r[2] == "Option::Some" and lin(r[3][0]) == (g[1], 1)):
                                okc = False
                        elif g[3] == ">=" and g[4] == 0:
                            if not (r is not None and r[0] == "agg" and r[2] == "Option::None"):
                                okc = False
                        else:
                            okc = False
                    if not okc and countdown_closure_ok(v, eff[0]):
                        okc = True
                        countdown = True
                    if not okc:
                        probs.append("the update closure is not `t < max => Some(t+1), else None`")
                else:
                    probs.append("atomic update without an analysable closure")
            if a[0] == "cmp" and a[3] in ("<", ">=") and a[4] == 0:
                ct = counter_term(a[1])
                if ct and ct[0] == "pre" and is_factory_param(v, a[2]):
                    admitted = (a[3] == "<")
                    cellk = ct[1]
                if ct and ct[0] == "cur" and is_factory_param(v, a[2]):
                    # a plain load deciding admission: check-then-act
                    probs.append("admission is decided on a separate load of the counter, not by the atomic update itself")
                    cellk = ct[1]
        n += 1
        if admitted is None:
            probs.append("a path forwards / drops the datum without an admission decision by the atomic update")
        elif admitted and len(ds) != 1:
            probs.append("admitted datum not forwarded exactly once")
        elif admitted is False and ds:
            probs.append("datum forwarded although not admitted")
        if ds and ds[0][2] != "in":
            probs.append("forwarded datum is not the incoming one")
    if cellk and countdown:
        # the counter counts the slots that are left: it starts at max (the factory parameter itself)
        c0 = v.op.cells.get(cellk[0])
        a0 = c0.alloc if c0 else None
        if not (a0 and a0[0] == "call" and a0[3] and is_factory_param(v, a0[3][0])):
            probs.append("the count-down counter does not start at max")
    elif cellk and cell_init(v, cellk[0]) != 0:
        probs.append("counter does not start at 0")
    ctx.ob("GRD-cmp", v.key(h, "Data", "GRD-cmp", "admission"), not probs and n,
           "a datum is forwarded iff the counter's own atomic update admitted it (pre < max), exactly once, unchanged" if not probs else "; ".join(sorted(set(probs))[:3]), v.loc(h))
    return cellk


def transfer_lemmas(ctx, v):
    """Per-arm transfer function of the five unary operators (UP.D), relay arms, and the DOWN.P relay."""
    h = v.by_role("UP")[0]
    d = v.by_role("DOWN")[0]
    fam = v.family
    paths = live(v, returning(v.arm(h, "Data")))
    if fam == "map":
        probs = []
        for p in paths:
            ucs = [(i, e) for i, e in ev_effects(p) if e.kind == "usercall"]
            sig = send_sig(v, h, "Data", p)
            if len(ucs) != 1 or ucs[0][1].args != [incoming_payload(h, "Data")] or not is_factory_param(v, strip_clone(ucs[0][1].fn)):
                probs.append("not exactly one call f(incoming datum)")
                continue
            if not (len(sig) == 1 and sig[0][0] == "SINK" and sig[0][1] == "Data" and sig[0][3].payload[0] == "call" and sig[0][3].payload[1] == ucs[0][1].site):
                probs.append("the sink is not sent exactly Data(f(datum))")
        ctx.ob("REL-1:1", v.key(h, "Data", "REL-1:1", "map-transfer"), not probs and paths, "UP.D sends exactly Data(f(d)) with f applied once to the incoming datum" if not probs else "; ".join(sorted(set(probs))), v.loc(h))
    elif fam == "filter":
        probs, kinds = [], set()
        for p in paths:
            ucs = [(i, e) for i, e in ev_effects(p) if e.kind == "usercall"]
            sig = send_sig(v, h, "Data", p)
            if len(ucs) != 1 or ucs[0][1].args != [incoming_payload(h, "Data")]:
                probs.append("not exactly one call condition(&datum)")
                continue
            dec = [a for (_, a, _) in guards_before(p, len(p.events)) if a[0] == "bool" and a[1][0] == "call" and a[1][1] == ucs[0][1].site]
            if len(dec) != 1:
                probs.append("no branch on the predicate's result")
                continue
            got = [(s[0], s[1], s[2]) for s in sig]
            if dec[0][2]:
                kinds.add("pass")
                if got != [("SINK", "Data", "in")]:
                    probs.append("accepted datum: sends %s" % got)
            else:
                kinds.add("drop")
                if got != [("UPTB", "Pull", "none")] and not (not got and tb_none_decided(v, p)):
                    probs.append("rejected datum: sends %s" % got)
        ctx.ob("REL-xor", v.key(h, "Data", "REL-xor", "filter-transfer"), not probs and kinds == {"pass", "drop"},
               "UP.D forwards the datum iff condition(&d), otherwise re-requests exactly once" if not probs else "; ".join(sorted(set(probs))), v.loc(h))
    elif fam == "scan":
        probs = []
        for p in paths:
            effs = ev_effects(p)
            ucs = [(i, e) for i, e in effs if e.kind == "usercall"]
            sig = send_sig(v, h, "Data", p)
            stores = [(i, e) for i, e in effs if e.kind == "cell" and e.op == "store"]
            loads = [(i, e) for i, e in effs if e.kind == "cell" and e.op in ("load", "load_full")]
            if len(ucs) != 1 or len(stores) != 1 or len(sig) != 1:
                probs.append("shape is not load; reducer; store; load; send")
                continue
            (ui, u), (si, st) = ucs[0], stores[0]
            a0 = strip_clone(u.args[0]) if u.args else None
            if not (len(u.args) == 2 and a0 is not None and a0[0] == "cellload" and cell_key(a0[1]) == cell_key(st.cell) and u.args[1] == incoming_payload(h, "Data")):
                probs.append("reducer not called as reducer(acc.clone(), datum)")
            sv = strip_clone(st.value)
            if not (sv[0] == "call" and sv[1] == u.site and ui < si):
                probs.append("accumulator not updated with the reducer's result")
            s0 = sig[0]
            pl = strip_clone(s0[3].payload)
            if not (s0[0] == "SINK" and s0[1] == "Data"):
                probs.append("the sink is not sent the accumulator")
            elif pl[0] == "call" and pl[1] == u.site:
                # the freshly computed value itself (or its clone): same value as the accumulator just stored
                if not si < s0[4]:
                    probs.append("the value is emitted before the accumulator is updated")
            elif pl[0] == "cellload" and cell_key(pl[1]) == cell_key(st.cell):
                li = [i for i, e in loads if e.site == pl[2]]
                if not li or not (si < li[0] < s0[4]):
                    probs.append("the emitted accumulator is not read after the update")
            else:
                probs.append("the sink is not sent the accumulator")
            if [1 for i, e in effs if e.kind == "send" and si < i < s0[4]]:
                probs.append("a send lies between the update and the emission")
        # the accumulator starts as a clone of the seed
        accs = [c for c in v.op.cells.values()]
        if len(accs) != 1 or not (strip_clone(accs[0].alloc[3][0] if accs[0].alloc[0] == "call" and accs[0].alloc[3] else ("x",)) == ("param", v.op.id, 2)
                                  and accs[0].alloc[3][0] != ("param", v.op.id, 2)):
            probs.append("the accumulator does not start as a clone of the seed")
        ctx.ob("ORD-update-emit", v.key(h, "Data", "ORD-update-emit", "scan-transfer"), not probs and paths,
               "UP.D: acc := reducer(acc.clone(), d); then emits acc.clone(), nothing in between" if not probs else "; ".join(sorted(set(probs))), v.loc(h))
    elif fam == "take":
        ck = lemma_take_admission(ctx, v, h)
        for e, b, arms in terminal_sink_sends(v):
            if arms == ["Data"]:
                _take_completion(ctx, v, b, e)
        # DOWN.P relays iff taken < max
        probs, kinds = [], set()
        for p in returning(v.arm(d, "Pull")):
            sig = [(s[0], s[1]) for s in send_sig(v, d, "Pull", p)]
            dec = [a for (_, a, _) in guards_before(p, len(p.events)) if a[0] == "cmp" and counter_term(a[1]) and counter_term(a[1])[0] == "cur" and is_factory_param(v, a[2])]
            down = [a for (_, a, _) in guards_before(p, len(p.events)) if a[0] == "cmp" and counter_term(a[1]) and counter_term(a[1])[0] == "cur" and a[2] is None and a[4] == 1
                    and a[3] in ("<", ">=")]
            if not dec and len(down) == 1 and ck and counter_term(down[0][1])[1] == ck and take_counts_down(v, h):
                # a counter of remaining slots: relay iff remaining >= 1
                if down[0][3] == ">=":
                    kinds.add("relay")
                    if sig != [("UPTB", "Pull")] and not (not sig and tb_none_decided(v, p)):
                        probs.append("slots left: sends %s" % sig)
                else:
                    kinds.add("drop")
                    if sig:
                        probs.append("no slot left: sends %s" % sig)
                continue
            if len(dec) != 1 or (ck and counter_term(dec[0][1])[1] != ck):
                probs.append("pull relay not decided by taken vs max")
                continue
            a = dec[0]
            if a[3] == "<" and a[4] == 0:
                kinds.add("relay")
                if sig != [("UPTB", "Pull")] and not (not sig and tb_none_decided(v, p)):
                    probs.append("below the bound: sends %s" % sig)
            elif a[3] == ">=" and a[4] == 0:
                kinds.add("drop")
                if sig:
                    probs.append("at the bound: sends %s" % sig)
            else:
                probs.append("boundary of the pull relay is not taken < max")
        ctx.ob("GRD-cmp", v.key(d, "Pull", "GRD-cmp", "pull-relay-below-bound"), not probs and kinds == {"relay", "drop"},
               "DOWN.P relays the pull iff taken < max" if not probs else "; ".join(sorted(set(probs))), v.loc(d))
    elif fam == "skip":
        probs, kinds = [], set()
        ck = None
        for p in paths:
            sig = [(s[0], s[1], s[2]) for s in send_sig(v, h, "Data", p)]
            dec = [a for (_, a, _) in guards_before(p, len(p.events)) if a[0] == "cmp" and counter_term(a[1]) and is_factory_param(v, a[2])]
            claim = None
            for (_, a, _) in guards_before(p, len(p.events)):
                rm0 = None
                if a[0] == "discr" and a[1][0] == "rmw" and a[1][2] == "fetch_update":
                    rm0, admitted = a[1], (a[2] == 0)
                elif a[0] == "bool" and a[1][0] == "call" and a[1][2].endswith("::is_ok") and a[1][3] and a[1][3][0][0] == "rmw" and a[1][3][0][2] == "fetch_update":
                    rm0, admitted = a[1][3][0], a[2]
                elif a[0] == "bool" and a[1][0] == "call" and a[1][2].endswith("::is_err") and a[1][3] and a[1][3][0][0] == "rmw" and a[1][3][0][2] == "fetch_update":
                    rm0, admitted = a[1][3][0], not a[2]
                if rm0 is not None:
                    claim = (rm0, admitted)
            if not dec and claim is not None:
                # the count-and-compare is one atomic claim: Ok = counted as skipped, Err = bound reached
                rm0, counted = claim
                ck = cell_key(rm0[1])
                eff = [e for _, e in ev_effects(p) if e.kind == "atomic" and e.site == rm0[4]]
                if not eff or not claim_closure_ok(v, eff[0]):
                    probs.append("the update closure is not `s < max => Some(s+1), else None`")
                others = [e for i, e in ev_effects(p) if e.kind == "atomic" and e.op != "load" and cell_key(e.cell) == ck and e.site != rm0[4]]
                if others:
                    probs.append("skip counter updated twice")
                if counted:
                    kinds.add("skip")
                    if sig != [("UPTB", "Pull", "none")] and not (not sig and tb_none_decided(v, p)):
                        probs.append("below the bound: sends %s" % sig)
                else:
                    kinds.add("pass")
                    if sig != [("SINK", "Data", "in")]:
                        probs.append("at/over the bound: sends %s" % sig)
                continue
            if len(dec) != 1:
                probs.append("no single comparison of the skip counter with max")
                continue
            a = dec[0]
            ck = counter_term(a[1])[1]
            rm = [e for i, e in ev_effects(p) if e.kind == "atomic" and e.op != "load" and cell_key(e.cell) == ck]
            if a[3] == "<" and a[4] == 0:
                kinds.add("skip")
                if (sig != [("UPTB", "Pull", "none")] and not (not sig and tb_none_decided(v, p))) or len(rm) != 1 or not (rm[0].op == "fetch_add" and rm[0].operand[3] == 1):
                    probs.append("below the bound: sends %s, counter updates %d" % (sig, len(rm)))
            elif a[3] == ">=" and a[4] == 0:
                kinds.add("pass")
                if sig != [("SINK", "Data", "in")] or rm:
                    probs.append("at/over the bound: sends %s" % sig)
            else:
                probs.append("boundary is not skipped < max")
        if ck and cell_init(v, ck[0]) != 0:
            probs.append("skip counter does not start at 0")
        ctx.ob("REL-xor", v.key(h, "Data", "REL-xor", "skip-transfer"), not probs and kinds == {"skip", "pass"},
               "UP.D: while skipped < max count and re-request, afterwards forward the datum unchanged" if not probs else "; ".join(sorted(set(probs))), v.loc(h))
    # every cell the transfer function reads or writes is per subscription (allocated in ROOT's Handshake arm)
    bad = sorted(str(c.name) for c in v.op.cells.values() if c.scope not in ("SUBSCRIPTION", "DELIVERY"))
    ctx.ob("SCP-sub", "%s:SCP-sub:state-per-subscription" % v.name, not bad,
           "all %d cells are allocated per subscription" % len(v.op.cells) if not bad else "state shared between subscriptions: %s" % bad, v.loc(h))
    # relay arms and completion rule shared by all five
    lemma_rel_one(ctx, v, h, "Terminate", "SINK", "Terminate", "none", what="completes-with-upstream")
    lemma_rel_one(ctx, v, h, "Error", "SINK", "Error", "in", what="error-relayed")
    extra = [(e, b, arms) for e, b, arms in terminal_sink_sends(v) if not (v.op.roles.get(b) == "UP" and set(arms) <= {"Error", "Terminate"}) and not (fam == "take" and arms == ["Data"])]
    ctx.ob("PL-nonH", "%s:PL-nonH:no-other-terminal-site" % v.name, not extra, "no terminal-to-sink site besides the relays%s" % (" and take's completion" if fam == "take" else ""), v.loc(h))
    # synchronous: all data sends sit in the UP.D arm itself
    ds = [(e, b) for e, b in v.sends() if e.variant == "Data" and v.cls_of(e)[0] == "SINK"]
    sync = all(v.op.roles.get(b) == "UP" and site_arms(v, b, e) == ["Data"] for e, b in ds) and ds
    ctx.ob("PL-nonH", "%s:PL-nonH:data-inside-delivery" % v.name, bool(sync), "every datum is sent from inside the Data arm that received its cause (same arm for push and pull)", v.loc(h))
    if fam != "take":
        lemma_rel_one(ctx, v, d, "Pull", "UPTB", "Pull", "none", what="pull-relayed")


@prop("C07", "other",
      "Structural proof of the per-datum transfer function of map, filter, scan, take and skip on the upstream Data arm, with value "
      "provenance, in both feature configurations (sequential, A1-A6): map sends exactly Data(f(d)) with one call of f on the incoming "
      "datum; filter calls condition(&d) once and forwards d iff it held, else re-requests once (REL-xor); scan updates acc := "
      "reducer(acc.clone(), d) and emits the freshly read accumulator with no send in between (ORD-update-emit), acc being a "
      "per-subscription clone of the seed; take forwards d iff the counter's own atomic update admitted it (normal form pre(taken) < "
      "max, closure lemma for fetch_update), completes by post(taken) == max with end flag, upstream Terminate then sink Terminate in "
      "the same arm, and relays pulls iff taken < max; skip counts and re-requests while skipped < max and forwards unchanged "
      "afterwards. All five: Terminate/Error arms are 1:1 relays, there is no other terminal site, and every datum is sent from "
      "inside the Data arm (same code for push and pull). The prefix-wise list equality follows by induction on the emitted "
      "sequence; that induction is written in DESIGN.md, not mechanised, and values computed by user closures are out of scope.",
      axioms=["A1", "A2", "A3", "A5", "A6"])
def C07(ctx, model, tier, models):
    census_operators(ctx, model)
    n = 0
    for v in views(model):
        if v.cls == "unary":
            transfer_lemmas(ctx, v)
            n += 1
    ctx.ob("CEN-H", "unary-operators", n == 5, "%d unary operators analysed (map, filter, scan, take, skip)" % n)
    ctx.floor("REL-1:1", 1 + 2 * 5 + 4)


# ============================================================================= C15 (from_iter) lemmas

def from_iter_lemmas(ctx, v):
    P = v.P
    d = v.by_role("DOWN")[0]
    loops = [t for t in v.by_role("THUNK") if any(e.kind == "send" for e in v.all_effects(t))]
    ctx.ob("CEN-H", "%s:loop-thunk" % v.name, len(loops) == 1, "%d emitting thunk(s)" % len(loops), v.loc(v.op.id))
    if len(loops) != 1:
        return
    t = loops[0]
    tp = v.arm(t, None)
    # --- which cells play which part (by structure)
    # pull flag: the bool stored `true` in DOWN.P before the loop call; loop flag: stored true first / false last in the thunk
    def bool_stores(path, val):
        return [(i, e) for i, e in ev_effects(path) if (raises_flag(e) if val else lowers_flag(e))]
    probs = []
    # ORD-bracket: first visible effect of every thunk path is in_loop.store(true); last is in_loop.store(false)
    bracket = None
    claimed_by_thunk = False
    for p in complete(tp):
        vis = [(i, e) for i, e in ev_effects(p) if effect_visible(P, e) and not e.tracing and e.kind != "panic"]
        if not vis:
            probs.append("empty loop path")
            continue
        f, l = vis[0][1], vis[-1][1]
        if not raises_flag(f):
            probs.append("thunk does not start by raising the in-loop flag")
            continue
        bracket = cell_key(f.cell)
        if f.op != "store" and bracket in flag_guard(p, len(p.events), True):
            # test-and-set entry (`if in_loop.swap(true) { return }`): an activation that finds the loop running backs off; it must
            # do nothing at all, and in particular not lower the flag it does not own
            claimed_by_thunk = True
            if len(vis) != 1 or p.end != "return":
                probs.append("an activation that found the loop running does more than return")
            continue
        if f.op != "store":
            claimed_by_thunk = True
            if bracket not in flag_guard(p, len(p.events), False):
                probs.append("the in-loop flag is raised by an RMW whose previous value is not tested")
        if p.end == "return" and not (lowers_flag(l) and cell_key(l.cell) == bracket):
            probs.append("thunk does not end by lowering the in-loop flag")
        for i, e in ev_effects(p):
            if e.kind == "send" and not (vis[0][0] < i and (p.end != "return" or i < vis[-1][0])):
                probs.append("send outside the bracket")
    ctx.ob("ORD-bracket", v.key(t, None, "ORD-bracket"), not probs and bracket is not None,
           "in_loop := true dominates and in_loop := false post-dominates every send of the loop" if not probs else "; ".join(sorted(set(probs))[:3]), v.loc(t))
    # the only call of the thunk is in DOWN.P, after got_pull := true, under in_loop == false (and res_done == false)
    callers = thunk_callers(v, t)
    good = bool(callers) and all(v.op.roles.get(cb) == "DOWN" and cv == "Pull" for cb, cv, _ in callers)
    probs = [] if good else ["loop thunk called from %s" % sorted({"%s.%s" % (v.label(cb), VSHORT.get(cv, "-")) for cb, cv, _ in callers})]
    pull_flag = None
    for p in v.arm(d, "Pull", inline=0):
        for i, e in ev_effects(p):
            if e.kind == "thunk" and e.target == t:
                st = [(j, x) for j, x in bool_stores(p, 1) if j < i]
                if not st:
                    probs.append("the pull is not recorded before the loop is entered")
                else:
                    pull_flag = cell_key(st[0][1].cell)
                fl = flag_guard(p, i, False)
                if bracket not in fl and not claimed_by_thunk:
                    probs.append("loop entered without testing the in-loop flag")
        # every returning Pull path records the pull (unless disposed)
        if p.end == "return":
            # an early return of a path that has only observed flags and found one raised (the sink left, or the iterator is
            # exhausted and the sink was told): nothing to record
            only_loads = all((e.kind == "atomic" and e.op == "load") or e.tracing or not effect_visible(P, e) for _, e in ev_effects(p))
            disposed = any(a[0] == "bool" and a[2] is True and flag_observation(a[1]) is not None for (_, a, _) in guards_before(p, len(p.events))[:1]) \
                or (only_loads and any(a[0] == "bool" and a[2] is True and flag_observation(a[1]) is not None for (_, a, _) in guards_before(p, len(p.events))))
            if not disposed and not bool_stores(p, 1):
                probs.append("a Pull path does not record the pull")
            # the store precedes the in_loop test
            tests = [j for j, a, _ in guards_before(p, len(p.events)) if a[0] == "bool" and flag_observation(a[1]) is not None and flag_observation(a[1]) == bracket]
            st = bool_stores(p, 1)
            if tests and st and not st[0][0] < tests[0]:
                probs.append("in-loop flag tested before the pull is recorded")
    ctx.ob("ORD-bracket", v.key(d, "Pull", "ORD-bracket", "single-activation"), not probs and pull_flag is not None,
           "DOWN.P records the pull, then enters the loop only if no activation is running: never re-entrant" if not probs else "; ".join(sorted(set(probs))[:3]), v.loc(d))
    # per iteration: got_pull := false; exactly one iterator advance; Terminate-and-leave xor Data(v) with v from this advance
    probs = []
    n_iter = 0
    for p in tp:
        evs = p.events
        # iteration boundaries: tests of the pull flag being true
        starts = [i for i, ev in enumerate(evs) if ev[0] == "br" and norm_pred(ev[1], ev[2])[0] == "bool" and flag_observation(norm_pred(ev[1], ev[2])[1]) is not None
                  and flag_observation(norm_pred(ev[1], ev[2])[1]) == pull_flag and norm_pred(ev[1], ev[2])[2] is True]
        for si, s in enumerate(starts):
            e_end = starts[si + 1] if si + 1 < len(starts) else len(evs)
            seg = [(i, evs[i]) for i in range(s, e_end)]
            effs = [(i, x[1]) for i, x in seg if x[0] == "eff"]
            sends = [(i, e) for i, e in effs if e.kind == "send"]
            nexts = [(i, e) for i, e in effs if e.kind == "iternext"]
            if p.end == "cut" and si == len(starts) - 1 and not sends:
                continue
            completed_seen = any(x[0] == "br" and norm_pred(x[1], x[2])[0] == "bool" and norm_pred(x[1], x[2])[2] is True and flag_observation(norm_pred(x[1], x[2])[1]) is not None
                                 and flag_observation(norm_pred(x[1], x[2])[1]) not in (pull_flag, bracket) and not sends and not nexts for i, x in seg)
            if completed_seen:
                continue
            n_iter += 1
            resets = [i for i, e in effs if lowers_flag(e) and cell_key(e.cell) == pull_flag]
            # `while .. && got_pull.swap(false)`: the test that starts the iteration is itself the consumption
            start_obs = norm_pred(evs[s][1], evs[s][2])[1]
            consumed_at_test = start_obs[0] == "rmw" and start_obs[2] in ("swap", "fetch_and") and start_obs[3] is not None and start_obs[3][0] == "const" and not start_obs[3][3]
            if not consumed_at_test and (not resets or (nexts and resets[0] > nexts[0][0])):
                probs.append("iteration does not consume the pull before advancing")
            if len(nexts) != 1:
                probs.append("%d iterator advances in one iteration" % len(nexts))
                continue
            if len(sends) != 1:
                probs.append("%d sends in one iteration" % len(sends))
                continue
            snd = sends[0][1]
            if v.cls_of(snd)[0] != "SINK":
                probs.append("loop sends to %s" % v.cls_of(snd)[0])
            if snd.variant == "Data":
                # provenance: the payload is what this iteration's next() stored (through the value cell), no send in between
                stores = [(i, e) for i, e in effs if e.kind == "pstore" and e.value[0] == "call" and e.value[2] == "std::iter::Iterator::next" and e.value[1] == nexts[0][1].site]
                pl = snd.payload
                via = [x for x in walk(pl) if x[0] == "lock"]
                direct = pl
                while direct is not None and (direct[0] == "someof" or (direct[0] == "field" and direct[2] == 0 and direct[1][0] == "downcast" and direct[1][2] == "Some")):
                    direct = direct[1] if direct[0] == "someof" else direct[1][1]
                if direct is not None and direct[0] == "call" and direct[2] == "std::iter::Iterator::next" and direct[1] == nexts[0][1].site:
                    pass        # the datum is the Some-payload of this very advance, held in a local: nothing in between
                elif not stores:
                    probs.append("the advanced value is not stored")
                elif not via or not any(x[0] == "lock" and cell_key(x[1]) == cell_key([y for y in walk(stores[0][1].place) if y[0] == "lock"][0][1]) for x in via):
                    probs.append("the datum sent is not the value this advance produced")
            elif snd.variant == "Terminate":
                later = [x for i, x in effs if i > sends[0][0] and x.kind in ("send", "iternext")]
                if later or (si + 1 < len(starts)):
                    probs.append("loop continues after Terminate")
            else:
                probs.append("loop sends %s" % snd.variant)
    ctx.ob("REL-xor", v.key(t, None, "REL-xor", "one-advance-one-send-per-pull"), not probs and n_iter >= 2,
           "each iteration consumes one recorded pull, advances the iterator once and sends that item, or Terminate and leaves" if not probs else "; ".join(sorted(set(probs))[:3]), v.loc(t))
    # the iterator advanced is the per-subscription clone of the factory's iterable, untouched (no adaptor in between)
    its = {e.iter for e in v.all_effects(t) if e.kind == "iternext"}
    okit = len(its) == 1
    if okit:
        it = list(its)[0]
        lk = [x for x in walk(it) if x[0] == "lock"]
        okit = bool(lk)
        if okit:
            c = v.op.cells.get(base_key(lk[0][1]))
            a = c.alloc if c else None
            okit = bool(a) and a[0] == "call" and a[2].endswith("RwLock::<T>::new") and a[3] and strip_clone(a[3][0]) == ("param", v.op.id, 1) and a[3][0] != ("param", v.op.id, 1)
    ctx.ob("SCP-clone", "%s:iterator-is-clone-of-iterable" % v.name, okit, "the loop advances iter.clone().into_iter(), made per subscription, with no adaptor" if okit else "the iterator advanced is not the plain per-subscription clone of the iterable", v.loc(t))
    # iterator advanced only inside the thunk
    others = [b for b in v.op.bodies if b != t and any(e.kind == "iternext" for e in v.all_effects(b))]
    ctx.ob("PL-nonH", "%s:iternext-only-in-loop" % v.name, not others, "the iterator is advanced only inside the loop thunk", v.loc(t))
    for e, b, arms in terminal_sink_sends(v):
        if v.op.roles.get(b) == "THUNK":
            _from_iter_completion(ctx, v, b, e)
    _from_iter_disposal(ctx, v)
    # DOWN.E|T only set the flag
    for var in ("Error", "Terminate"):
        _flag_only_arm(ctx, v, d, var)
    # locked regions contain no send
    probs = []
    for p in tp:
        depth_lock = None
        for i, ev in enumerate(p.events):
            pass
    return


@prop("C15", "other",
      "Structural proof for from_iter (sequential, A5/A6), both feature configurations: ORD-bracket - the loop thunk raises in_loop "
      "first and lowers it last around every send, and its only call site is DOWN.P, after got_pull := true and under in_loop == "
      "false (so a nested Pull is recorded and served by the running activation: at most one activation on the stack, stack depth "
      "independent of the item count); per iteration the loop consumes the recorded pull (got_pull := false), advances the iterator "
      "exactly once and sends exactly that item (provenance through the value cell, written and taken in the same iteration) or "
      "sends Terminate and leaves (REL-xor); the iterator is advanced nowhere else; Terminate is guarded by the exhaustion flag and "
      "DOWN.P enters the loop only while it is false; a disposed talkback returns at once, the loop re-reads `completed` before every "
      "send, and DOWN.E|T only set the flag.",
      axioms=["A5", "A6"])
def C15(ctx, model, tier, models):
    census_operators(ctx, model)
    n = 0
    for v in views(model):
        if v.family == "from_iter":
            from_iter_lemmas(ctx, v)
            lemma_rel_one(ctx, v, v.root, "Handshake", "SINK", "Handshake", "closure:DOWN", what="greet")
            n += 1
    ctx.ob("CEN-H", "from_iter-present", n == 1, "from_iter analysed")
    ctx.floor("ORD-bracket", 2)
    ctx.floor("REL-xor", 1)


# ============================================================================= C14 demand conservation

def pull_sends(v):
    return [(e, b) for e, b in v.sends() if e.variant == "Pull"]


def demand_lemmas(ctx, v):
    fam = v.family
    P = v.P
    if fam in ("map", "scan", "filter", "skip", "take"):
        h = v.by_role("UP")[0]
        d = v.by_role("DOWN")[0]
        if fam != "take":
            lemma_rel_one(ctx, v, d, "Pull", "UPTB", "Pull", "none", what="pull-relayed", only_class=("UPTB", "SINK", "SINKLIST", "UPSRC"))
        # token down: each path of UP.D emits exactly one token (Data down or Pull up), except take past its bound
        probs = []
        for p in live(v, returning(v.arm(h, "Data"))):
            sig = send_sig(v, h, "Data", p)
            toks = [s for s in sig if (s[0] == "SINK" and s[1] == "Data") or (s[0] == "UPTB" and s[1] == "Pull")]
            if len(toks) != 1:
                if fam == "take" and not toks:
                    continue   # not admitted: the output is already over (C07 admission lemma)
                if not sig and tb_none_decided(v, p):
                    continue   # the talkback cell was seen empty: no upstream to compensate (dead while Data is arriving, ORD-store-pub)
                probs.append("path emits %s" % [(s[0], s[1]) for s in toks])
            if fam in ("map", "scan", "take") and any(s[0] == "UPTB" and s[1] == "Pull" for s in sig):
                probs.append("unrequested pull")
        ctx.ob("REL-token", v.key(h, "Data", "REL-token"), not probs, "every consumed datum re-emits exactly one token (Data down, or a compensating Pull up)" if not probs else "; ".join(sorted(set(probs))), v.loc(h))
    if fam == "concat":
        h = v.by_role("UP")[0]
        d = v.by_role("DOWN")[0]
        lemma_rel_one(ctx, v, h, "Data", "SINK", "Data", "in", what="data-relayed", only_class=("SINK", "UPTB"))
        # DOWN.P: got_pull := true, then exactly one pull through the talkback cell
        probs = []
        gp = None
        for p in returning(v.arm(d, "Pull")):
            effs = ev_effects(p)
            st = [(i, e) for i, e in effs if raises_flag(e)]
            sig = send_sig(v, d, "Pull", p)
            if [(s[0], s[1]) for s in sig] != [("UPTB", "Pull")] and not (not sig and tb_none_decided(v, p)):
                probs.append("DOWN.P sends %s" % [(s[0], s[1]) for s in sig])
            if not st or (sig and st[0][0] > sig[0][4]):
                probs.append("the pull is not recorded before it is relayed")
            else:
                gp = cell_key(st[0][1].cell)
        ctx.ob("ORD-flag-relay", v.key(d, "Pull", "ORD-flag-relay", "pull-recorded-then-relayed"), not probs and gp is not None,
               "DOWN.P records the outstanding pull, then relays it" if not probs else "; ".join(sorted(set(probs))), v.loc(d))
        # UP.H, not first member: pull the new member iff a pull was recorded, after storing its talkback
        probs, kinds = [], set()
        for p in returning(v.arm(h, "Handshake")):
            sig = send_sig(v, h, "Handshake", p)
            first = any(a[0] == "cmp" and a[3] == "==" and a[4] == 0 and a[2] is None and counter_term(a[1]) for (_, a, _) in guards_before(p, len(p.events)))
            if first:
                continue
            fl = [a for (_, a, _) in guards_before(p, len(p.events)) if a[0] == "bool" and flag_observation(a[1]) is not None and flag_observation(a[1]) == gp]
            if len(fl) != 1:
                probs.append("boundary does not consult the recorded pull")
                continue
            if fl[0][1][2][0] != h:
                probs.append("the recorded pull is read when the member is subscribed, not when it greets (stale)")
            pulls = [s for s in sig if s[0] == "UPTB" and s[1] == "Pull"]
            if fl[0][2]:
                kinds.add("pull")
                st = [i for i, e in ev_effects(p) if e.kind == "cell" and e.op == "store"]
                if len(pulls) != 1 or len(sig) != 1 or not st or st[0] > pulls[0][4]:
                    probs.append("outstanding pull not re-issued exactly once to the new member (after storing its talkback)")
            else:
                kinds.add("nopull")
                if sig:
                    probs.append("boundary sends %s although no pull is outstanding" % [(s[0], s[1]) for s in sig])
        ctx.ob("REL-xor", v.key(h, "Handshake", "REL-xor", "boundary-pull-iff-outstanding"), not probs and kinds == {"pull", "nopull"},
               "a later member is pulled on greeting iff the sink has pulled" if not probs else "; ".join(sorted(set(probs))), v.loc(h))
        # UP.T hands the token to `next`
        probs = []
        for p in returning(v.arm(h, "Terminate", inline=0)):
            if thunk_cell_none_dead(v, p):
                continue
            th = [e for i, e in ev_effects(p) if e.kind == "thunk"]
            rm = [i for i, e in ev_effects(p) if e.kind == "atomic" and e.op == "fetch_add"]
            ti = [i for i, e in ev_effects(p) if e.kind == "thunk"]
            if len(th) != 1 or len(rm) != 1 or not rm[0] < ti[0]:
                probs.append("member end does not advance the index and call `next` exactly once")
        ctx.ob("ORD-update-emit", v.key(h, "Terminate", "ORD-update-emit", "advance-then-next"), not probs, "a member's end advances the index, then calls `next` once" if not probs else probs[0], v.loc(h))
    if fam == "flatten":
        d = v.by_role("DOWN")[0]
        uo = v.by_role("UP")[0]
        ui = v.by_role("UP_INNER")[0]
        tb = v.talkback_cells()
        inner_k = [k for k, l in tb.items() if any(h == ui for h, _ in l)]
        outer_k = [k for k, l in tb.items() if any(h == uo for h, _ in l)]
        # pull routing
        probs, kinds = [], set()
        for p in returning(v.arm(d, "Pull")):
            sig = send_sig(v, d, "Pull", p)
            tgt = [base_key(recv_load(s[3])[1]) for s in sig if s[0] == "UPTB" and s[1] == "Pull" and recv_load(s[3])]
            dec = {}
            for (_, a, _) in guards_before(p, len(p.events)):
                if a[0] == "discr" and a[1][0] == "cellload":
                    dec.setdefault(base_key(a[1][1]), a[2] == 1)
                if a[0] == "opt" and a[1][0] == "cellload":
                    dec.setdefault(base_key(a[1][1]), a[2] == "some")
            if inner_k and dec.get(inner_k[0]) is None:
                probs.append("a Pull path does not consult the inner cell first (it decides on %s)" % ("the outer cell" if dec else "nothing"))
            elif inner_k and dec.get(inner_k[0]) is True:
                kinds.add("inner")
                if tgt != inner_k or len(sig) != 1:
                    probs.append("active inner: pull goes to %d targets" % len(sig))
            elif outer_k and dec.get(outer_k[0]) is True:
                kinds.add("outer")
                if tgt != outer_k or len(sig) != 1 or dec.get(inner_k[0]) is not False:
                    probs.append("no inner: pull does not go to the outer alone")
            else:
                kinds.add("none")
                if sig:
                    probs.append("both levels gone but something is sent")
                if not (dec.get(inner_k[0]) is False and outer_k and dec.get(outer_k[0]) is False):
                    probs.append("a Pull is dropped although not both levels were seen to be gone")
        ctx.ob("REL-xor", v.key(d, "Pull", "REL-xor", "pull-routing"), not probs and kinds == {"inner", "outer", "none"},
               "a Pull goes to the active inner if there is one, else to the outer, else nowhere" if not probs else "; ".join(sorted(set(probs))), v.loc(d))
        # inner greeting: store then exactly one pull to that talkback
        probs = []
        for p in returning(v.arm(ui, "Handshake")):
            sig = send_sig(v, ui, "Handshake", p)
            st = [i for i, e in ev_effects(p) if e.kind == "cell" and e.op == "store" and base_key(e.cell) in inner_k]
            via_cell = bool(sig) and recv_load(sig[0][3]) is not None and base_key(recv_load(sig[0][3])[1]) in inner_k
            # or the talkback that was just stored, used directly (`store(Some(Arc::clone(&source))); source(Pull)`)
            direct = bool(sig) and strip_refs(strip_clone(sig[0][3].recv)) == incoming_payload(ui, "Handshake")
            if not ([(s[0], s[1]) for s in sig] == [("UPTB", "Pull")] and st and st[0] < sig[0][4] and (via_cell or direct)):
                probs.append("inner greeting is not: store talkback; pull it once")
        ctx.ob("REL-1:1", v.key(ui, "Handshake", "REL-1:1", "inner-pulled-on-greeting"), not probs, "each inner is stored and pulled exactly once on greeting" if not probs else probs[0], v.loc(ui))
        lemma_rel_one(ctx, v, ui, "Data", "SINK", "Data", "in", what="inner-data-relayed", only_class=("SINK", "UPTB"))
        # outer datum: consumed, exactly one inner subscription, no data to the sink
        probs = []
        for p in returning(v.arm(uo, "Data")):
            sig = send_sig(v, uo, "Data", p)
            subs = [s for s in sig if s[0] == "UPSRC_INNER" and s[1] == "Handshake"]
            if len(subs) != 1 or any(s[0] == "SINK" for s in sig):
                probs.append("outer datum does not lead to exactly one inner subscription")
        ctx.ob("REL-1:1", v.key(uo, "Data", "REL-1:1", "inner-subscribed-once"), not probs, "each outer datum subscribes exactly one inner source" if not probs else probs[0], v.loc(uo))
        # inner end with the outer alive re-issues the token to the outer
        probs, kinds = [], set()
        for p in returning(v.arm(ui, "Terminate")):
            sig = send_sig(v, ui, "Terminate", p)
            if any(s[0] == "SINK" for s in sig):
                kinds.add("complete")
                continue
            kinds.add("pull-outer")
            pulls = [s for s in sig if s[0] == "UPTB" and s[1] == "Pull" and recv_load(s[3]) and base_key(recv_load(s[3])[1]) in outer_k]
            if len(pulls) != 1 or len(sig) != 1:
                probs.append("inner end with a live outer does not pull the outer exactly once")
        ctx.ob("REL-token", v.key(ui, "Terminate", "REL-token", "inner-end-pulls-outer"), not probs and kinds == {"complete", "pull-outer"},
               "an inner's end either completes the output or re-requests from the outer" if not probs else probs[0], v.loc(ui))
    # PL-pull census
    for e, b in pull_sends(v):
        role = v.op.roles.get(b)
        arms = site_arms(v, b, e)
        if role == "THUNK" and arms == [None]:
            # a Pull inside a local closure: it is sent in the arms that call the closure
            callers = thunk_callers(v, b)
            croles = {v.op.roles.get(cb) for cb, _, _ in callers}
            if len(croles) == 1 and all(cv is not None for _, cv, _ in callers):
                role = croles.pop()
                arms = sorted({cv for _, cv, _ in callers}, key=VARIANTS.index)
        ok = False
        if role == "DOWN" and arms == ["Pull"]:
            ok = True
        elif fam in ("filter", "skip") and role == "UP" and arms == ["Data"]:
            ok = True
        elif fam == "concat" and role == "UP" and arms == ["Handshake"]:
            ok = True
        elif fam == "flatten" and role == "UP_INNER" and set(arms) <= {"Handshake", "Terminate"}:
            ok = True
        elif fam == "for_each" and role == "UP" and set(arms) <= {"Handshake", "Data"}:
            ok = True
        ctx.ob("PL-pull", v.key(b, None, "PL-pull", "site-%s" % "".join(VSHORT.get(a, "-") for a in arms)), ok, "Pull site in %s arms %s" % (v.label(b), arms), e.loc)


@prop("C14", "other",
      "Token-conservation lemmas decided per arm (a Pull is a token travelling up, a Data or an end a token travelling down), for "
      "from_iter, map, filter, scan, take, skip, concat, flatten, sequential histories over pullable upstreams (A7): DOWN.P relays "
      "exactly one Pull (take: iff taken < max; flatten: routed to the active inner, else the outer, else nowhere); every Data arm "
      "re-emits exactly one token (Data down, or the compensating Pull of filter/skip; flatten's outer datum becomes one inner "
      "subscription whose greeting is pulled once); swallowed ends hand the token on (concat: index advanced, `next`, and the new "
      "member pulled on greeting iff a pull was recorded, the record being written before the relay; flatten: inner end pulls the "
      "outer); from_iter serves one advance and one send per recorded pull (C15 lemmas); PL-pull: census of all Pull sites, so no "
      "unrequested demand is created. #Data <= #Pull and 'every Pull is answered' follow by induction over the history; that "
      "induction is written, not mechanised. concat's got_pull is sticky, harmless under A7.",
      axioms=["A1", "A2", "A5", "A6", "A7"])
def C14(ctx, model, tier, models):
    census_operators(ctx, model)
    for v in views(model):
        if v.family in ("map", "scan", "filter", "skip", "take", "concat", "flatten", "for_each"):
            demand_lemmas(ctx, v)
        if v.family == "take":
            transfer_lemmas(ctx, v)
        if v.family == "from_iter":
            from_iter_lemmas(ctx, v)
        if v.family in ("merge", "combine", "share", "interval"):
            # not in the property's list, but their Pull sites are part of the census (no unrequested demand anywhere)
            for e, b in pull_sends(v):
                ok = v.op.roles.get(b) == "DOWN" and site_arms(v, b, e) == ["Pull"]
                ctx.ob("PL-pull", v.key(b, None, "PL-pull", "site"), ok, "Pull site in %s" % v.label(b), e.loc)
    ctx.floor("PL-pull", 18)
    ctx.floor("REL-token", 6)


# ============================================================================= C08 merge

def merge_lemmas(ctx, v):
    ups = v.by_role("UP")
    d = v.by_role("DOWN")[0]
    r = v.root
    tb = v.talkback_cells()
    for h in ups:
        # greeting at the first member greeting
        found = False
        for p in v.arm(h, "Handshake"):
            for s in send_sig(v, h, "Handshake", p):
                if s[1] == "Handshake" and s[0] == "SINK":
                    found = True
                    g = grd_once(v, p, s[4])
                    ok = g is not None and g["step"] == 1 and g["init"] == 0 and g["post_offset"] == 1 and g["bound"] is None and g["uniform"] and g["scope"] == "SUBSCRIPTION"
                    ctx.ob("GRD-once", v.key(h, "Handshake", "GRD-once", "greet-at-first-member"), ok,
                           "the sink is greeted by the member whose increment of start_count returned 0 (post == 1)" if ok else "greeting is not guarded by post(start_count) == 1 on a monotone counter from 0", s[3].loc)
                    ctx.ob("ORD-adjacent", v.key(h, "Handshake", "ORD-adjacent", "greet"), g is not None and g["adjacent"], "no send between the count and the greeting", s[3].loc)
                    # ORD-store-pub: the member's cell is stored before the count and the greeting
                    st = [i for i, e in ev_effects(p) if e.kind == "cell" and e.op == "store" and e.value[0] == "agg" and e.value[2] == "Option::Some" and base_key(e.cell) in tb]
                    okp = bool(st) and g is not None and g["rmw_idx"] is not None and st[0] < g["rmw_idx"]
                    ctx.ob("ORD-store-pub", v.key(h, "Handshake", "ORD-store-pub", "cell-before-count-and-greeting"), okp, "the member's talkback is stored before it is counted and before the greeting", s[3].loc)
        ctx.ob("PL-greet", v.key(h, "Handshake", "PL-greet", "member-greets"), found, "member arm contains the guarded greeting", v.loc(h))
        # data: stateless 1:1 relay
        probs = []
        for p in live(v, returning(v.arm(h, "Data"))):
            sig = send_sig(v, h, "Data", p)
            vis = [e for i, e in ev_effects(p) if effect_visible(v.P, e) and not e.tracing and e.kind != "send"
                   and not (e.kind == "atomic" and e.op == "load" and cell_key(e.cell) in over_flags(v))]
            brs = [a for (_, a, _) in guards_before(p, len(p.events))
                   if not (a[0] == "bool" and flag_observation(a[1]) is not None and flag_observation(a[1]) in over_flags(v))]
            if [(s[0], s[1], s[2]) for s in sig] != [("SINK", "Data", "in")] or vis or brs:
                probs.append("Data arm is not the unconditional, stateless relay (sends %s, %d other effects, %d branches)" % ([(s[0], s[1], s[2]) for s in sig], len(vis), len(brs)))
        ctx.ob("REL-1:1", v.key(h, "Data", "REL-1:1", "stateless-relay"), not probs, "every member datum is forwarded once, unconditionally, touching no shared cell" if not probs else probs[0], v.loc(h))
        # cell write census: Some only in own H arm, None only in own T arm, both at the handler's own index
        probs = []
        sels = set()
        for k in tb:
            for (e, b) in cell_writes(v, k):
                arms = site_arms(v, b, e)
                sel = cell_key(e.cell)[1]
                sels.add(sel)
                if e.kind != "cell" or e.op != "store":
                    probs.append("member cell written by %s" % e.op)
                elif e.value[0] == "agg" and e.value[2] == "Option::Some":
                    if not (b == h and arms == ["Handshake"]):
                        probs.append("Some stored outside the member's Handshake arm")
                elif e.value[0] == "agg" and e.value[2] == "Option::None":
                    if not (b == h and arms == ["Terminate"]):
                        probs.append("None stored outside the member's Terminate arm")
                else:
                    probs.append("member cell stored a non-Option value")
        # index agreement with the subscribe site
        subs = [e for e, b in subscribe_sends(v)]
        idx_sub = None
        if len(subs) == 1 and subs[0].recv[0] == "index":
            idx_sub = subs[0].recv[2]
        own = {s for s in sels}
        if len(own) != 1 or idx_sub is None or list(own)[0] != ("idx", idx_sub):
            probs.append("member cell index is not the index the member was subscribed with")
        ctx.ob("ATM-single-writer", v.key(h, None, "ATM-single-writer", "cell-i"), not probs,
               "cell i is Some exactly from member i's greeting to its completion, written only by member i" if not probs else "; ".join(sorted(set(probs))[:3]), v.loc(h))
        # completion
        okc, n = True, 0
        for p in v.arm(h, "Terminate"):
            for s in path_terminals(v, h, "Terminate", p):
                n += 1
                g = grd_once(v, p, s[4])
                if not (g and g["step"] == 1 and g["init"] == 0 and g["post_offset"] == 0 and g["bound"] is not None and _is_member_count(v, g["bound"]) and g["uniform"] and g["adjacent"]):
                    okc = False
                cl = [i for i, e in ev_effects(p) if e.kind == "cell" and e.op == "store" and e.value[0] == "agg" and e.value[2] == "Option::None"]
                if not cl or (g and g["rmw_idx"] is not None and cl[0] > g["rmw_idx"]):
                    okc = False
        ctx.ob("GRD-once", v.key(h, "Terminate", "GRD-once", "complete-at-last-member"), okc and n >= 1,
               "the sink completes exactly when end_count reaches n; the member's cell is cleared first" if okc else "completion guard / clear-count-emit order broken", v.loc(h))
        no_other_t = [1 for e, b, arms in terminal_sink_sends(v) if e.variant == "Terminate" and not (b == h and arms == ["Terminate"])]
        ctx.ob("PL-nonH", v.key(h, None, "PL-nonH", "single-completion-site"), not no_other_t, "no other Terminate-to-sink site", v.loc(h))
    lemma_down_relay(ctx, v, d, "Pull", ("Pull",), what="pull-to-every-live-member")
    # n agreement: subscribe loop range, cell vector length, completion bound
    alloc = [c for k, c in v.op.cells.items() if k in tb]
    okn = len(alloc) == 1 and any(_is_member_count(v, x) for x in walk(alloc[0].alloc) if x[0] == "call" and x[2].endswith("::len"))
    ctx.ob("EQV-count", "%s:EQV-count:n" % v.name, okn, "the cell vector is sized by the member count that also bounds the subscribe loop and the completion guard", v.loc(r))
    _merge_subscribe_loop(ctx, v)
    _merge_late_greeter(ctx, v)


@prop("C08", "other",
      "Structural proof of merge's clauses for every member count (the code is generic over a slice), sequential, A1-A6, both "
      "feature configurations: greeting at the first member greeting (GRD-once post(start_count)==1 from 0, ORD-adjacent, the "
      "member's talkback stored before it is counted and before the greeting); every datum forwarded once by an unconditional, "
      "stateless relay (REL-1:1, no branch and no cell access in the Data arm: arrival order is preserved trivially); Pull "
      "broadcast over the whole cell vector, each send Some-guarded, cell i being Some exactly between member i's greeting and "
      "completion (write census, index agreement with the subscribe index); completion once when end_count reaches n (GRD-once, "
      "cell cleared before the count); n agreement between loop range, vector length and completion bound; members may greet "
      "late (the subscribe loop re-reads the over-flag, no lemma assumes synchrony); a member greeting after the output is over "
      "is sent Terminate at once and not registered (FIX-3).",
      axioms=["A1", "A2", "A3", "A5", "A6"])
def C08(ctx, model, tier, models):
    census_operators(ctx, model)
    n = 0
    for v in views(model):
        if v.family == "merge":
            merge_lemmas(ctx, v)
            n += 1
    ctx.ob("CEN-H", "merge-present", n == 1, "merge analysed")
    ctx.floor("GRD-once", 2)
    ctx.floor("GRD-flag", 2)


# ============================================================================= C09 concat

def concat_lemmas(ctx, v):
    h = v.by_role("UP")[0]
    d = v.by_role("DOWN")[0]
    r = v.root
    nexts = [t for t in v.by_role("THUNK") if any(e.kind == "send" for e in v.all_effects(t))]
    ctx.ob("CEN-H", "%s:next-thunk" % v.name, len(nexts) == 1, "%d sending thunk(s)" % len(nexts), v.loc(r))
    if len(nexts) != 1:
        return
    t = nexts[0]
    # the only subscribe site is in `next`; the member subscribed is sources[i] with i the current index
    subs = subscribe_sends(v)
    ok = len(subs) == 1 and subs[0][1] == t
    idx_ok = False
    idx_cell = None
    if ok:
        rc = subs[0][0].recv
        if rc[0] == "index" and rc[2][0] == "aload":
            idx_cell = cell_key(rc[2][1])
            idx_ok = all(is_factory_param(v, x) for x in walk(rc[1]) if x[0] == "param") and any(x[0] == "param" for x in walk(rc[1]))
    ctx.ob("PL-sub", v.key(t, None, "PL-sub", "member-i-subscribed-in-next"), ok and idx_ok,
           "the only subscribe site is in `next` and subscribes sources[i] for the current index i" if ok and idx_ok else "subscribe site is not sources[i] inside `next`", v.loc(t))
    # call sites of next
    callers = thunk_callers(v, t)
    good = bool(callers) and all((v.op.roles.get(cb) == "UP" and cv == "Terminate") or (cb == r and cv == "Handshake") for cb, cv, _ in callers)
    ctx.ob("PL-sub", v.key(t, None, "PL-sub", "next-called-only-on-completion"), good,
           "`next` is called from %s" % sorted({"%s.%s" % (v.label(cb), VSHORT.get(cv, "-")) for cb, cv, _ in callers}), v.loc(t))
    # in UP.T the index is advanced (unit RMW on the same cell) before the call
    probs = []
    for p in returning(v.arm(h, "Terminate", inline=0)):
        if thunk_cell_none_dead(v, p):
            continue
        rm = [(i, e) for i, e in ev_effects(p) if e.kind == "atomic" and e.op == "fetch_add" and e.operand[3] == 1 and cell_key(e.cell) == idx_cell]
        th = [(i, e) for i, e in ev_effects(p) if e.kind == "thunk" and e.target == t]
        if len(rm) != 1 or len(th) != 1 or not rm[0][0] < th[0][0]:
            probs.append("member end is not: i += 1; next()")
        sends = [e for i, e in ev_effects(p) if e.kind == "send"]
        if sends:
            probs.append("member end sends something itself")
    ws = cell_writes(v, idx_cell[0]) if idx_cell else []
    if not all(b == h and site_arms(v, b, e) == ["Terminate"] for e, b in ws):
        probs.append("the member index is written outside the member's Terminate arm")
    ctx.ob("ORD-update-emit", v.key(h, "Terminate", "ORD-update-emit", "advance-then-next"), not probs and idx_cell is not None,
           "member k+1 is subscribed only from member k's Terminate, after the index moved on" if not probs else "; ".join(sorted(set(probs))), v.loc(h))
    # K-thunk: next_ref stored before the first call in ROOT.H
    probs = []
    for p in returning(v.arm(r, "Handshake", inline=0)):
        st = [i for i, e in ev_effects(p) if e.kind == "cell" and e.op == "store" and e.value[0] == "agg" and e.value[2] == "Option::Some"]
        th = [i for i, e in ev_effects(p) if e.kind == "thunk" and e.target == t]
        if len(th) != 1 or not st or not st[0] < th[0]:
            probs.append("ROOT.H does not store the thunk before its single first call")
    ctx.ob("ORD-store-pub", v.key(r, "Handshake", "ORD-store-pub", "next_ref-before-first-call"), not probs, "next_ref is set before `next` first runs" if not probs else probs[0], v.loc(r))
    for e, b, arms in terminal_sink_sends(v):
        if b == t:
            _concat_completion(ctx, v, b, e)
    lemma_rel_one(ctx, v, h, "Data", "SINK", "Data", "in", what="data-relayed", only_class=("SINK", "UPTB"))
    lemma_rel_one(ctx, v, h, "Error", "SINK", "Error", "in", what="error-relayed", only_class=("SINK", "UPTB", "UPSRC"))
    # after an error or a disposal no later member: no call of next in UP.E / DOWN (covered by the caller census above),
    # and the error arm has no thunk call at all
    th_e = [e for p in v.arm(h, "Error", inline=0) for i, e in ev_effects(p) if e.kind == "thunk"]
    ctx.ob("PL-sub", v.key(h, "Error", "PL-sub", "no-next-after-error"), not th_e, "the Error arm subscribes nobody", v.loc(h))
    demand_lemmas(ctx, v)


@prop("C09", "other",
      "Structural proof for concat, every member count, sequential, A1-A6, both configurations: the only subscribe site is in thunk "
      "`next` and subscribes sources[i] for the current index; `next` is called once from ROOT.H (after next_ref is stored) and "
      "otherwise only from a member's Terminate arm, after the unit increment of i, i being written nowhere else - so member k+1 is "
      "subscribed only after member k completed and (A2) all of k's data precede k+1's; completion in `next` is guarded by i == n "
      "with n the member count and nothing follows it; DOWN.P records the outstanding pull before relaying it and a later member "
      "is pulled on greeting iff one was recorded, after its talkback was stored (REL-xor); the Error arm and the talkback never "
      "call `next`; Data and Error are 1:1 relays. Assumption: at least one member (the property's own bound). The stale-cell "
      "window (KF-3) is reported under C04.",
      axioms=["A1", "A2", "A3", "A5", "A6", "A7 (demand clause)"])
def C09(ctx, model, tier, models):
    census_operators(ctx, model)
    n = 0
    for v in views(model):
        if v.family == "concat":
            concat_lemmas(ctx, v)
            n += 1
    ctx.ob("CEN-H", "concat-present", n == 1, "concat analysed")
    ctx.floor("PL-sub", 3)
    ctx.assumptions.append("concat!() has at least one member")


# ============================================================================= C10 combine

def obs_of_counter(e):
    """Describe an expression as an observation of a counter: ('post'|'cur', cellkey) lists for phi alternatives."""
    alts = list(e[1]) if e[0] == "phi" else [e]
    out = []
    for a in alts:
        base, off = lin(a)
        ct = counter_term(base)
        if ct is None:
            return None
        if ct[0] == "pre":
            step = 1 if ct[3] == "fetch_add" else -1
            out.append(("post" if off == step else "pre+%d" % off, ct[1], ct))
        else:
            out.append(("cur" if off == 0 else "cur+%d" % off, ct[1], ct))
    return out


def counter_zero_decision(a):
    """If the atom says `the value a counter has now is == 0` (or != 0), return (is_zero, observations).  The value "now" is the
    result of a plain load, or the value an RMW left behind (previous value plus its unit step); the comparison may be spelled on
    either: `fetch_sub(1) - 1 == 0`, `fetch_sub(1) == 1`, `load() == 0`, or a local bound to one of these per branch (phi)."""
    if a[0] != "cmp" or a[3] not in ("==", "!=") or a[2] is not None or a[1] is None:
        return None
    alts = list(a[1][1]) if a[1][0] == "phi" else [a[1]]
    obs = []
    for alt in alts:
        base, off = lin(alt)
        ct = counter_term(base)
        if ct is None:
            return None
        want = a[4] - off          # base == want
        if ct[0] == "pre":
            if ct[3] not in ("fetch_add", "fetch_sub") or ct[4] is None or ct[4][0] != "const" or ct[4][3] != 1:
                return None
            step = 1 if ct[3] == "fetch_add" else -1
            if want + step != 0:
                return None
            obs.append(("post", ct[1], ct))
        else:
            if want != 0:
                return None
            obs.append(("cur", ct[1], ct))
    return (a[3] == "==", obs)


def member_index(v, h):
    """The tuple index of the source this member handler was subscribed to (combine): from the subscribe receiver."""
    for e, b in subscribe_sends(v):
        if e.payload is not None and e.payload[0] == "agg" and e.payload[2] == h:
            fs = [x for x in walk(e.recv) if x[0] == "field" and x[1][0] == "param" and isinstance(x[2], int)]
            if fs:
                return fs[0][2]
    return None


def combine_rcu_closure_ok(v, h, rc, idx):
    """The rcu closure of member idx is `copy the tuple it is handed; copy.idx = Some(datum.clone()); copy`."""
    rets = closure_returns(v, rc.closure) if rc.closure else []
    if len(rets) != 1:
        return False
    stores = [e for e in v.all_effects(rc.closure) if e.kind == "pstore"]
    if len(stores) != 1:
        return False
    stp = stores[0]
    base = stp.place[1] if stp.place[0] == "field" else None
    val = stp.value
    cur = ("param", rc.closure, 2)
    return bool(stp.place[0] == "field" and stp.place[2] == idx and base is not None and strip_clone(base) == cur and base != cur
                and val[0] == "agg" and val[2] == "Option::Some" and strip_clone(val[3][0]) == incoming_payload(h, "Data")
                and val[3][0] != incoming_payload(h, "Data") and rets[0][1] == base)


def combine_lemmas(ctx, v):
    ups = v.by_role("UP")
    d = v.by_role("DOWN")[0]
    N = len(ups)
    arity = int(v.name.split("/")[1])
    ctx.ob("EQV-arity", "%s:EQV-arity:members" % v.name, N == arity, "arity %d has %d member handlers" % (arity, N), v.loc(v.op.id))
    tb = v.talkback_cells()
    seen_idx = set()
    for h in ups:
        idx = member_index(v, h)
        seen_idx.add(idx)
        lab = v.label(h)
        # ---- greeting (GRD-once n_start: post == 0, init N)
        found = False
        for p in v.arm(h, "Handshake"):
            for s in send_sig(v, h, "Handshake", p):
                if s[1] == "Handshake" and s[0] == "SINK":
                    found = True
                    g = grd_once(v, p, s[4])
                    ok = g is not None and g["step"] == -1 and g["init"] == N and g["post_offset"] == 0 and g["bound"] is None and g["uniform"] and g["adjacent"] and g["scope"] == "SUBSCRIPTION"
                    ctx.ob("GRD-once", v.key(h, "Handshake", "GRD-once", "greet-when-all-greeted"), ok,
                           "greeting guarded by post(n_start) == 0 on a counter initialised to N = %d" % N if ok else "greeting not guarded by post(n_start)==0 from N", s[3].loc)
            # store own cell at own index before the count
            st = [e for i, e in ev_effects(p) if e.kind == "cell" and e.op == "store"]
            if p.end == "return" and not (len(st) == 1 and cell_key(st[0].cell)[1] == ("field", idx)):
                ctx.ob("ATM-single-writer", v.key(h, "Handshake", "ATM-single-writer", "talkback-slot"), False, "member %s stores its talkback into slot %s" % (idx, [cell_key(x.cell)[1] for x in st]), v.loc(h))
        ctx.ob("PL-greet", v.key(h, "Handshake", "PL-greet", "member-greets"), found, "member arm contains the guarded greeting", v.loc(h))
        # ---- Data arm
        probs = []
        kinds = set()
        vals_k = None
        ndata_k = None
        for p in returning(v.arm(h, "Data")):
            effs = ev_effects(p)
            rcus = [(i, e) for i, e in effs if e.kind == "cell" and e.op == "rcu"]
            sig = send_sig(v, h, "Data", p)
            if len(rcus) != 1:
                probs.append("not exactly one rcu of the value tuple")
                continue
            ri, rc = rcus[0]
            vals_k = cell_key(rc.cell)
            # closure lemma: copy the current tuple, set field idx to Some(datum.clone()), return the copy
            cl_ok = combine_rcu_closure_ok(v, h, rc, idx)
            if not cl_ok:
                probs.append("the rcu closure is not `copy tuple; tuple.%s = Some(datum.clone()); copy`" % idx)
            # first-value test on own slot, counter decremented at most once per member, after the publication (ORD-pub-signal)
            first = [a for (_, a, _) in guards_before(p, len(p.events)) if a[0] in ("opt", "bool") and any(x[0] == "cellload" and cell_key(x[1]) == vals_k for x in walk(a[1]))]
            slot_ok = False
            is_first = None
            for a in first:
                fld = [x for x in walk(a[1]) if x[0] == "field" and x[1][0] == "cellload"]
                if fld and fld[0][2] == idx:
                    slot_ok = True
                    is_first = (a[2] == "none") if a[0] == "opt" else None
            if not slot_ok:
                probs.append("the first-value test does not look at the member's own slot")
            rmws = [(i, e) for i, e in effs if e.kind == "atomic" and e.op not in ("load", "store")]
            if is_first:
                kinds.add("first")
                if len(rmws) != 1 or not (rmws[0][1].op == "fetch_sub" and rmws[0][1].operand[3] == 1):
                    probs.append("first value does not decrement n_data exactly once")
                elif rmws[0][0] < ri:
                    probs.append("n_data is decremented before the value is published (ORD-pub-signal)")
                else:
                    ndata_k = cell_key(rmws[0][1].cell)
            elif is_first is False:
                kinds.add("later")
                if rmws:
                    probs.append("a later value changes a counter")
            # emission
            em = [s for s in sig if s[0] == "SINK"]
            dec = []
            for (i, a, ev) in guards_before(p, len(p.events)):
                czd = counter_zero_decision(a)
                if czd is not None:
                    dec.append((i, czd[0], czd[1]))
            if len(dec) != 1:
                probs.append("emission is not decided by n_data == 0")
                continue
            zero = dec[0][1]
            if zero:
                if len(em) != 1 or em[0][1] != "Data":
                    probs.append("all members have a value but no tuple is emitted")
                else:
                    pl = em[0][3].payload
                    okp = pl[0] == "call" and pl[2].endswith("Unwrap::unwrap") and strip_clone(pl[3][0])[0] == "cellload" and cell_key(strip_clone(pl[3][0])[1]) == vals_k
                    if not okp:
                        probs.append("emitted payload is not unwrap(vals.load().clone())")
                    else:
                        lsite = strip_clone(pl[3][0])[2]
                        li = [i for i, e in effs if e.kind == "cell" and e.op in ("load", "load_full") and e.site == lsite]
                        if not li or li[0] < ri:
                            probs.append("the tuple is read before this datum was published")
                        obs_sites = {o[2][2] if o[2][0] == "pre" else o[2][2] for o in dec[0][2]}
                        oi = [i for i, e in effs if e.kind == "atomic" and e.site in obs_sites]
                        if li and oi and li[0] < max(oi):
                            probs.append("the tuple is read before n_data is observed: another member's announcement can slip in between")
                        if [1 for i, e in effs if e.kind == "send" and ri < i < em[0][4]]:
                            probs.append("a send lies between publication and emission")
            else:
                if em:
                    probs.append("a tuple is emitted before every member has a value")
            if any(s[0] != "SINK" for s in sig):
                probs.append("Data arm sends upstream")
        ctx.ob("REL-xor", v.key(h, "Data", "REL-xor", "tuple-rule"), not probs and kinds == {"first", "later"},
               "slot %s := Some(d) by rcu; first value decrements n_data after publishing; emit unwrap(latest tuple) iff n_data == 0" % idx if not probs else "; ".join(sorted(set(probs))[:4]), v.loc(h))
        # n_data: init N, only written by this pattern
        if ndata_k:
            okc = cell_init(v, ndata_k[0]) == N and all(e.kind == "atomic" and e.op == "fetch_sub" and site_arms(v, b, e) == ["Data"] for e, b in cell_writes(v, ndata_k[0]))
            ctx.ob("GRD-once", v.key(h, "Data", "GRD-once", "n_data-init-N"), okc, "n_data starts at N = %d and is only decremented in member Data arms" % N, v.loc(h))
        # completion
        for var in ("Error", "Terminate"):
            okt, n = True, 0
            for p in v.arm(h, var):
                for s in path_terminals(v, h, var, p):
                    n += 1
                    g = grd_once(v, p, s[4])
                    if not (g and g["step"] == -1 and g["init"] == N and g["post_offset"] == 0 and g["bound"] is None and g["uniform"] and g["adjacent"]):
                        okt = False
            ctx.ob("GRD-once", v.key(h, var, "GRD-once", "complete-when-all-ended"), okt and n >= 1, "completion guarded by post(n_end) == 0 from N", v.loc(h))
    ctx.ob("ATM-single-writer", "%s:ATM-single-writer:indices" % v.name, seen_idx == set(range(N)), "member handlers cover indices %s" % sorted(x for x in seen_idx if x is not None), v.loc(v.op.id))
    lemma_down_relay(ctx, v, d, "Pull", ("Pull",), what="pull-to-every-member")
    # Unwrap::unwrap maps field k to field k
    for b in v.P.bodies.values():
        pass


def unwrap_impl_lemma(ctx, model):
    """Body lemma for the local `Unwrap::unwrap` impls: output field k is unwrap(self.k)."""
    P = model.prog
    n = 0
    for bid, b in P.bodies.items():
        if not bid.endswith("as combine::Unwrap>::unwrap"):
            continue
        n += 1
        ret = P.link(b.origin_local(0))
        ok = ret[0] == "agg" and ret[1] == "tuple"
        if ok:
            for k, x in enumerate(ret[3]):
                if not (x[0] == "someof" and x[1] == ("field", ("param", bid, 1), k)):
                    ok = False
        ctx.ob("REL-unwrap", "combine:Unwrap/%d:REL-unwrap" % (len(ret[3]) if ret[0] == "agg" else 0), ok, "Unwrap::unwrap maps field k to unwrap(self.k), k = 0..N-1", loc_of(b.span))
    ctx.ob("REL-unwrap", "combine:Unwrap:count", n == 12, "%d Unwrap impls" % n)


def arity_skeleton(v, h, idx):
    """Canonical description of a member handler, with its own index abstracted (EQV-arity)."""
    out = []
    for var in VARIANTS:
        lines = set()
        for p in v.arm(h, var):
            toks = []
            for ev in p.events:
                if ev[0] == "eff" and effect_visible(v.P, ev[1]) and not ev[1].tracing:
                    t = v.m.fmt_effect(v.op, ev[1])
                    toks.append(t)
                elif ev[0] == "br":
                    toks.append("if[%s=%s]" % (v.m.fmt_payload(v.op, ev[1]), ev[2]))
            s = "; ".join(toks) + "=>" + p.end
            s = re.sub(r"combine/\d+", "combine/N", s)
            s = re.sub(r"#\d+", "#k", s)
            s = s.replace(".%d" % idx, ".$idx")
            lines.add(s)
        out.append((var, tuple(sorted(lines))))
    return tuple(out)


@prop("C10", "other",
      "Structural proof of combine's tuple-construction rule per member datum, instantiated for all 12 arities and all 78 member "
      "handlers, both feature configurations (sequential, A1-A6): greeting by GRD-once post(n_start)==0 with n_start initialised to N "
      "= number of member handlers of that arity; member idx's Data arm publishes the datum with rcu whose closure is `copy the "
      "tuple, set field idx to Some(d.clone()), return it` (closure lemma), decrements n_data exactly once - on the member's first "
      "value, tested on its own slot - and only after the publication (ORD-pub-signal), and emits unwrap(vals.load().clone()) read "
      "after the publication iff n_data == 0, with no send in between (ORD-update-emit, REL-xor); Unwrap::unwrap maps field k to "
      "field k (body lemma, 12 impls); index agreement: the handler subscribed to source idx touches only slot idx of both tuples "
      "and the handlers cover 0..N-1; completion by GRD-once post(n_end)==0; every Pull reaches every member index exactly once; "
      "EQV-arity: member handlers of all arities have identical skeletons modulo the index. Which tuple for which interleaving "
      "follows because each datum's delivery is one arm execution. Recorded deviations: KF-1 (C05), KF-2 (C04).",
      axioms=["A1", "A2", "A5", "A6"])
def C10(ctx, model, tier, models):
    census_operators(ctx, model)
    n = 0
    skels = {}
    for v in views(model):
        if v.family == "combine":
            combine_lemmas(ctx, v)
            n += 1
            for h in v.by_role("UP"):
                skels.setdefault(arity_skeleton(v, h, member_index(v, h)), []).append("%s.%s" % (v.name, member_index(v, h)))
    unwrap_impl_lemma(ctx, model)
    ctx.ob("EQV-arity", "combine:EQV-arity:arities", n == 12, "%d arities analysed" % n)
    ctx.ob("EQV-arity", "combine:EQV-arity:member-skeletons", len(skels) == 1,
           "all %d member handlers share one skeleton modulo the index" % sum(len(x) for x in skels.values()) if len(skels) == 1 else
           "member handlers fall into %d skeleton classes: %s" % (len(skels), [x[:3] for x in skels.values()][:4]))
    ctx.floor("REL-xor", 78)
    ctx.floor("GRD-once", 78 * 4)


# ============================================================================= C11 flatten

def flatten_lemmas(ctx, v, hygiene=True):
    uo = v.by_role("UP")[0]
    ui = v.by_role("UP_INNER")[0]
    tb = v.talkback_cells()
    inner_k = [k for k, l in tb.items() if any(h == ui for h, _ in l)]
    demand_lemmas(ctx, v)
    # switch: previous inner disposed (Some-guarded, exactly once) before the new subscription
    probs, kinds = [], set()
    for p in returning(v.arm(uo, "Data")):
        sig = send_sig(v, uo, "Data", p)
        subs = [s for s in sig if s[0] == "UPSRC_INNER" and s[1] == "Handshake"]
        disp = [s for s in sig if s[0] == "UPTB"]
        if len(subs) != 1:
            probs.append("not exactly one inner subscription")
            continue
        dec = [a for (_, a, _) in guards_before(p, subs[0][4]) if a[0] == "discr" and a[1][0] == "cellload" and base_key(a[1][1]) in inner_k]
        if not dec:
            probs.append("the previous inner's cell is not consulted before subscribing")
            continue
        if dec[0][2] == 1:
            kinds.add("switch")
            if not (len(disp) == 1 and disp[0][1] == "Terminate" and disp[0][4] < subs[0][4] and recv_load(disp[0][3]) and base_key(recv_load(disp[0][3])[1]) in inner_k):
                probs.append("active previous inner is not disposed exactly once before the new subscription")
        else:
            kinds.add("fresh")
            if disp:
                probs.append("something is disposed although no inner is active")
        pl = subs[0][3].payload
        if not (pl[0] == "agg" and pl[2] == ui):
            probs.append("inner is not subscribed with the inner handler")
    ctx.ob("REL-xor", v.key(uo, "Data", "REL-xor", "switch-disposes-previous-inner"), not probs and kinds == {"switch", "fresh"},
           "a new inner disposes the active previous inner exactly once (Some-guarded), then is subscribed" if not probs else "; ".join(sorted(set(probs))[:3]), v.loc(uo))
    for h in (uo, ui):
        _flatten_completion(ctx, v, h, tb)
        lemma_rel_one(ctx, v, h, "Error", "SINK", "Error", "in", what="error-relayed", only_class=("SINK",))
        _flatten_cross_disposal(ctx, v, h, "Error")
    # recorded: the inner data relay is unconditional (no generation check) - the 'none of its data afterwards' clause rests on A3
    probs = []
    for p in returning(v.arm(ui, "Data")):
        if guards_before(p, len(p.events)):
            probs.append("guarded")
    ctx.ob("REL-1:1", v.key(ui, "Data", "REL-1:1", "inner-relay-unconditional"), not probs,
           "inner data is relayed unconditionally: a disposed inner is silent by A3 only (no generation check in the code)", v.loc(ui))
    # disposal with an active inner: the sink's Error / Terminate reaches both levels (otherwise the outer goes on producing inners,
    # and the 'previous' inner is disposed a second time at the next switch)
    d = v.by_role("DOWN")[0]
    for var in ("Error", "Terminate"):
        lemma_down_relay(ctx, v, d, var, ("Terminate",), what="disposal-reaches-both-levels")
    if hygiene:
        _cell_hygiene(ctx, v)


@prop("C11", "other",
      "Structural proof for flatten (sequential, A1-A6, synchronous or late greeters), both configurations: each outer datum leads to "
      "exactly one inner subscription with the inner handler, preceded - iff the inner cell is Some - by exactly one Terminate to the "
      "previous inner (REL-xor); an inner that completed by itself cleared the cell on its waiting branch, so it is not disposed "
      "again; the inner greeting stores the talkback and pulls it once; inner data is relayed 1:1 and unconditionally ('none of its "
      "data afterwards' therefore rests on A3, recorded); each level's Terminate arm completes the output iff the other level's "
      "cell is None and otherwise clears its own cell (the two completion sites are mutually exclusive); error arms dispose the "
      "other level first; Pull routing inner / outer / nowhere. Recorded finding: between a switch and the new inner's greeting the "
      "inner cell still holds the disposed inner (KF-4).",
      axioms=["A1", "A2", "A3", "A5", "A6"])
def C11(ctx, model, tier, models):
    census_operators(ctx, model)
    n = 0
    for v in views(model):
        if v.family == "flatten":
            flatten_lemmas(ctx, v)
            n += 1
    ctx.ob("CEN-H", "flatten-present", n == 1, "flatten analysed")
    ctx.floor("REL-xor", 4)


# ============================================================================= C12 share

def _share_append_lemma(ctx, v):
    """share ROOT.H: push (rcu closure lemma), then len == 1 test. Returns the key of the list cell."""
    r = v.root
    probs = []
    list_k = None
    for p in returning(v.arm(r, "Handshake")):
        rc = [(i, e) for i, e in ev_effects(p) if e.kind == "cell" and e.op == "rcu"]
        if len(rc) != 1:
            probs.append("not exactly one rcu on the sink list")
            continue
        list_k = cell_key(rc[0][1].cell)
        cl = rc[0][1].closure
        pushes = [e for e in v.all_effects(cl) if e.kind in ("other", "hocall") and e.callee.endswith("::push")] if cl else []
        rets = closure_returns(v, cl) if cl else []
        okc = len(pushes) == 1 and len(rets) == 1
        if cl and not pushes and len(rets) == 1 and _appended_item(rets[0][1], cl) == incoming_payload(r, "Handshake"):
            okc = None      # `old.iter().cloned().chain(once(this sink)).collect()`: the same list with this sink appended
        elif okc:
            vec, item = pushes[0].args[0], pushes[0].args[1]
            okc = (strip_clone(vec) == ("param", cl, 2) and vec != ("param", cl, 2) and item == incoming_payload(r, "Handshake") and rets[0][1] == vec)
        if okc is not None and not okc:
            probs.append("the rcu closure is not `copy the list; push this sink; copy`")
        lens = [(i, a) for i, a, _ in guards_before(p, len(p.events)) if a[0] == "cmp" and a[1] is not None and a[1][0] == "call" and a[1][2].endswith("::len")]
        if not lens or lens[0][0] < rc[0][0] or not ((lens[0][1][3] in ("==", "!=") and lens[0][1][4] == 1) or (lens[0][1][3] in ("<", ">=") and lens[0][1][4] == 2)):
            probs.append("subscription not decided by len == 1 evaluated after the push")
    ctx.ob("GRD-len", v.key(r, "Handshake", "GRD-len", "subscribe-on-0-to-1"), not probs and list_k is not None,
           "the sink is pushed first; upstream is subscribed iff the list then has exactly one element" if not probs else "; ".join(sorted(set(probs))), v.loc(r))
    return list_k


def share_lemmas(ctx, v):
    r = v.root
    h = v.by_role("UP")[0]
    d = v.by_role("DOWN")[0]
    list_k = _share_append_lemma(ctx, v)
    ctx.ob("GRD-len", v.key(r, "Handshake", "GRD-len", "guard"), all(_share_len_guard(v, b, e) for e, b in subscribe_sends(v)) and len(subscribe_sends(v)) == 1, "single subscribe site, guarded", v.loc(r))
    # REL-xor from C01
    kinds, probs = set(), []
    for p in returning(v.arm(r, "Handshake")):
        hs = [(s[0], s[1]) for s in send_sig(v, r, "Handshake", p)]
        if hs == [("UPSRC", "Handshake")]:
            kinds.add("subscribe")
        elif hs == [("SINK", "Handshake")]:
            kinds.add("greet")
        else:
            probs.append(str(hs))
    ctx.ob("REL-xor", v.key(r, "Handshake", "REL-xor", "subscribe-or-greet"), not probs and kinds == {"subscribe", "greet"}, "ROOT.H subscribes (first sink) xor greets directly (later sink)", v.loc(r))
    # fan-out
    for var in ("Data", "Error", "Terminate"):
        _share_fanout(ctx, v, h, var, "C12")
    for var in ("Error", "Terminate"):
        _share_clear_after(ctx, v, h, var)
        # KF-9: list cleared only after the terminal fan-out
        early = True
        for p in returning(v.arm(h, var)):
            st = [i for i, e in ev_effects(p) if e.kind == "cell" and e.op == "store" and cell_key(e.cell) == list_k]
            sn = [i for i, e in ev_effects(p) if e.kind == "send"]
            if st and sn and st[0] > sn[0]:
                early = False
        ctx.ob("ORD-clear-emit", "share:UP.ET:ORD:clear-after-fanout", early,
               "the list is detached before the terminal fan-out" if early else
               "the sink list is cleared only after the terminal fan-out: a sink that (re-)attaches from inside the terminal delivery is greeted directly and then wiped", v.loc(h))
    lemma_rel_one(ctx, v, h, "Handshake", "SINK", "Handshake", "closure:DOWN", what="first-sink-greeted")
    # ORD-store-pub
    probs = []
    for p in returning(v.arm(h, "Handshake")):
        st = [i for i, e in ev_effects(p) if e.kind == "cell" and e.op == "store"]
        sn = [i for i, e in ev_effects(p) if e.kind == "send"]
        if not st or not sn or st[0] > sn[0]:
            probs.append("source talkback not stored before the first sink is greeted")
    ctx.ob("ORD-store-pub", v.key(h, "Handshake", "ORD-store-pub"), not probs, "source_talkback is stored before the first sink is greeted", v.loc(h))
    for var in ("Error", "Terminate"):
        _share_detach(ctx, v, d, var)
    _share_detach_closures(ctx, v)
    lemma_rel_one(ctx, v, d, "Pull", "UPTB", "Pull", "none", what="pull-relayed", only_class=("UPTB", "SINK", "SINKLIST"))
    # the two factory-scope cells are exactly the intended sharing
    fact = sorted(c.name or "?" for k, c in v.op.cells.items() if c.scope == "FACTORY")
    ctx.ob("SCP-sub", "share:SCP-sub:factory-cells", len(fact) == 2 and all(c.scope == "FACTORY" for c in v.op.cells.values()), "factory-scope cells: %s" % fact, v.loc(v.op.id))


def _appended_item(e, cl):
    """If e is `<the closure's list parameter, element-wise cloned>.chain(once(x))` (collected), return x."""
    def peel(x):
        # collect / iter / into_iter are folded as identities by the alias table; cloned / copied / clone keep the elements
        while x is not None and x[0] == "call" and x[3] and (x[2].endswith(("::cloned", "::copied", "::collect", "::iter", "::into_iter", "::to_vec")) or x[2] == "Clone::clone" or x[2].endswith("Clone::clone")):
            x = x[3][0]
        return strip_refs(x)
    x = peel(e)
    if x is None or x[0] != "call" or not x[2].endswith("::chain") or len(x[3]) != 2:
        return None
    if peel(x[3][0]) != ("param", cl, 2):
        return None
    o = peel(x[3][1])
    if o is None or o[0] != "call" or not o[2].endswith("iter::once") or len(o[3]) != 1:
        return None
    return strip_clone(o[3][0])


def _share_detach_closures(ctx, v):
    """share DOWN.E|T: the position closure compares with this subscription's sink; the removal closure splices exactly i..i+1."""
    r = v.root
    d = v.by_role("DOWN")[0]
    probs = []
    n_pos = 0
    for var in ("Error", "Terminate"):
        for p in v.arm(d, var, inline=0):
            for i, e in ev_effects(p):
                if e.kind in ("hocall",) and e.callee.endswith("::position"):
                    n_pos += 1
                    for c in e.closures:
                        eq = [x for x in v.all_effects(c) if x.kind in ("other",) and x.callee.endswith("ptr_eq")]
                        if not (len(eq) == 1 and any(a == incoming_payload(r, "Handshake") for a in eq[0].args) and any(a == ("param", c, 2) for a in eq[0].args)):
                            probs.append("position closure is not Arc::ptr_eq(element, this sink)")
                if e.kind == "cell" and e.op == "rcu" and e.closure:
                    inner_pos = [x for x in v.all_effects(e.closure) if x.kind == "hocall" and x.callee.endswith("::position")]
                    if inner_pos:
                        # find-and-remove inside the closure: position(ptr_eq(element, this sink)) on the copy; only on Some(i): remove(i)
                        n_pos += 1
                        if len(inner_pos) != 1:
                            probs.append("removal closure looks the sink up more than once")
                        for c in inner_pos[0].closures:
                            eq = [x for x in v.all_effects(c) if x.kind in ("other",) and x.callee.endswith("ptr_eq")]
                            if not (len(eq) == 1 and any(a == incoming_payload(r, "Handshake") for a in eq[0].args) and any(a == ("param", c, 2) for a in eq[0].args)):
                                probs.append("position closure is not Arc::ptr_eq(element, this sink)")
                        for cp in returning(v.arm(e.closure, None)):
                            rm = [(i, x) for i, x in ev_effects(cp) if x.kind in ("other", "hocall") and
                                  (x.callee.endswith("::splice") or x.callee.endswith("::drain") or x.callee.endswith("::retain") or x.callee.endswith("::swap_remove") or re.search(r"Vec::<[^>]*>::remove$", x.callee))]
                            dec = [a for (_, a, _) in guards_before(cp, len(cp.events)) if a[0] == "discr" and a[1][0] == "call" and a[1][2].endswith("::position")]
                            if not dec:
                                probs.append("removal closure does not decide on the lookup")
                            elif dec[0][2] == 1:
                                okr = len(rm) == 1 and rm[0][1].callee.endswith("::remove") and not rm[0][1].callee.endswith("swap_remove") and len(rm[0][1].args) > 1 \
                                    and strip_refs(rm[0][1].args[1]) == strip_refs(dec[0][1]) and strip_clone(strip_refs(rm[0][1].args[0])) == ("param", e.closure, 2)
                                if not okr:
                                    probs.append("removal closure does not remove exactly the found position from a copy of the list")
                            elif rm:
                                probs.append("removal closure removes something although the sink was not found")
                        continue
                    sp = [x for x in v.all_effects(e.closure) if x.kind in ("other", "hocall") and
                          (x.callee.endswith("::splice") or x.callee.endswith("::drain") or re.search(r"Vec::<[^>]*>::remove$", x.callee))]
                    if len(sp) != 1:
                        probs.append("removal closure does not splice exactly once")
                    elif sp[0].callee.endswith("::remove"):
                        # Vec::remove(i): one element at one position, order of the rest kept (swap_remove is not accepted)
                        if strip_clone(sp[0].args[0]) != ("param", e.closure, 2):
                            probs.append("removal closure does not remove exactly position i from a copy of the list")
                    else:
                        rng = sp[0].args[1]
                        okr = rng[0] == "agg" and rng[2].startswith("Range::") and lin(rng[3][1]) == (rng[3][0], 1) and strip_clone(sp[0].args[0]) == ("param", e.closure, 2)
                        if not okr:
                            probs.append("removal closure does not remove exactly position i from a copy of the list")
    if not n_pos:
        probs.append("no lookup of this sink by Arc::ptr_eq")
    ctx.ob("REL-detach", v.key(d, None, "REL-detach", "closures"), not probs, "detach looks the sink up by Arc::ptr_eq and removes exactly that position from a copy of the list" if not probs else "; ".join(sorted(set(probs))), v.loc(d))


@prop("C12", "other",
      "Structural proof for share within the property's own quantifier (sequential, no emission nested in share's deliveries), both "
      "configurations: ROOT.H pushes the sink with an rcu whose closure copies the list and pushes this sink (closure lemma), and only "
      "then tests len == 1 (GRD-len): exactly one of {subscribe upstream and return, greet directly} (REL-xor), one subscribe site; "
      "the upstream handler greets the first sink after storing source_talkback (ORD-store-pub) and relays every non-Handshake "
      "message, cloned, to every element of the whole list (REL-fanout), clearing the list on a terminal; the talkback's E/T arms "
      "look the sink up by Arc::ptr_eq with this very sink, remove exactly that position by rcu before anything is sent, and send "
      "one Terminate upstream iff the list is then empty (REL-xor), so upstream is disposed exactly at the last detach and the next "
      "push makes len == 1 again (restart); sinks and source_talkback are the only factory-scope cells. 'At most one upstream "
      "alive': len goes 0->1 only after the previous upstream was disposed or ended. Recorded findings at the edge of the "
      "quantifier: KF-9 (list cleared after the terminal fan-out); KF-5/KF-8/KF-6 are reported under C02/C03, C04, C17.",
      axioms=["A1", "A2", "A3", "A5", "A6"])
def C12(ctx, model, tier, models):
    census_operators(ctx, model)
    n = 0
    for v in views(model):
        if v.family == "share":
            share_lemmas(ctx, v)
            n += 1
    ctx.ob("CEN-H", "share-present", n == 1, "share analysed")
    ctx.floor("REL-fanout", 3)


# ============================================================================= C16 interval

def interval_lemmas(ctx, v):
    r = v.root
    d = v.by_role("DOWN")[0]
    tasks = v.by_role("TASK")
    ctx.ob("CEN-H", "%s:task" % v.name, len(tasks) == 1, "%d task bodies" % len(tasks), v.loc(r))
    if len(tasks) != 1:
        return
    t = tasks[0]
    # counter: allocated in ROOT.H with constant 0; its only write is the RMW(add 1) in the task; the payload is the RMW's result
    probs = []
    ck = None
    n = 0
    for p in v.arm(t, None):
        for s in send_sig(v, t, None, p):
            n += 1
            pl = s[3].payload
            if s[0] == "SINK" and s[1] == "Data" and pl is not None and pl[0] == "ldsaved":
                # a task-local counter (a slot of the task's own state): only this task can touch it.  On this path: the slot is
                # set to the constant 0 once, before the first sleep; between two emissions it is stored exactly once, with a
                # fresh read of itself plus one; and the value sent was read after the previous store and before this one.
                local_slot = pl[1]
                evs = p.events
                st = [(i, ev[1]) for i, ev in enumerate(evs) if ev[0] == "eff" and ev[1].kind == "pstore" and ev[1].place == local_slot]
                lds = {ev[1]: i for i, ev in enumerate(evs) if ev[0] == "ld" and ev[2] == local_slot and i < s[4]}      # last occurrence wins
                first_wait = min([i for i, ev in enumerate(evs) if ev[0] == "yield" or (ev[0] == "eff" and ev[1].kind in ("sleep", "poll"))] + [len(evs)])
                inits = [(i, e) for i, e in st if e.value[0] == "const"]
                if not (len(inits) == 1 and inits[0][0] == st[0][0] and inits[0][1].value[3] == 0 and inits[0][0] < first_wait):
                    probs.append("the task-local counter is not set to 0 exactly once, at task start")
                prev = max([i for i, e in ev_effects(p) if e.kind == "send" and i < s[4]] + [-1])
                inc = [(i, e) for i, e in st if prev < i < s[4] and e.value[0] != "const"]
                if len(inc) != 1:
                    probs.append("the counter is not advanced exactly once per emission")
                    continue
                base, off = lin(inc[0][1].value)
                before = max([i for i, e in st if i < inc[0][0]] + [-1])
                if not (off == 1 and base is not None and base[0] == "ldsaved" and base[1] == local_slot and before < lds.get(base[2], -1) < inc[0][0]):
                    probs.append("the counter is not advanced by exactly one from its current value")
                if not (before < lds.get(pl[2], -1) < inc[0][0]):
                    probs.append("the value sent is not the counter's value before this emission's increment")
                local_counter = True
                continue
            if pl is not None and any(x[0] == "phi" for x in walk(pl)):
                pl = resolve_phis(p, s[4], pl)
            # `let (Ok(i) | Err(i)) = c.fetch_update(.., |i| Some(i.wrapping_add(1)))`: the previous value, whichever variant carries it,
            # of an update whose closure always installs its argument plus one - that is fetch_add(1)
            inner_rmw = pl
            while inner_rmw is not None and inner_rmw[0] in ("someof", "field", "downcast"):
                inner_rmw = inner_rmw[1]
            if s[0] == "SINK" and s[1] == "Data" and inner_rmw is not None and inner_rmw[0] == "rmw" and inner_rmw[2] == "fetch_update":
                ue = [x for _, x in ev_effects(p) if x.kind == "atomic" and x.site == inner_rmw[4]]
                rets = closure_returns(v, ue[0].closure) if ue and ue[0].closure else []
                unit = len(rets) == 1 and not rets[0][0] and rets[0][1] is not None and rets[0][1][0] == "agg" and rets[0][1][2] == "Option::Some" \
                    and lin(rets[0][1][3][0]) == (("param", ue[0].closure, 2), 1)
                if unit:
                    pl = ("rmw", inner_rmw[1], "fetch_add", ("const", "usize", "1_usize", 1), inner_rmw[4])
            if not (s[0] == "SINK" and s[1] == "Data" and pl is not None and pl[0] == "rmw" and pl[2] == "fetch_add" and pl[3][0] == "const" and pl[3][3] == 1):
                probs.append("the task does not send Data(i.fetch_add(1))")
                continue
            ck = cell_key(pl[1])
            # the RMW is the one executed in this iteration (between the previous send and this one)
            prev = max([i for i, e in ev_effects(p) if e.kind == "send" and i < s[4]] + [-1])
            rm = [i for i, e in ev_effects(p) if e.kind == "atomic" and e.site == pl[4] and prev < i < s[4]]
            if len(rm) != 1:
                probs.append("the counter is not advanced exactly once per emission")
    if ck:
        c = v.op.cells.get(ck[0])
        if not (c and c.scope == "SUBSCRIPTION" and cell_init(v, ck[0]) == 0):
            probs.append("the counter is not a per-subscription cell starting at 0")
        if not all(b == t and e.kind == "atomic" and e.op in ("fetch_add", "fetch_update") for e, b in cell_writes(v, ck[0])):
            probs.append("the counter is written outside the task's increment")
    ctx.ob("REL-1:1", v.key(t, None, "REL-1:1", "counts-from-zero"), not probs and n, "each emission carries the value its own unit increment returned; counter per subscription from 0" if not probs else "; ".join(sorted(set(probs))), v.loc(t))
    _interval_cycle(ctx, v)
    for var in ("Error", "Terminate"):
        _flag_only_arm(ctx, v, d, var)
    for var in ("Handshake", "Data", "Pull"):
        lemma_rel_silent(ctx, v, d, var)
    # flag written only in DOWN.E|T, allocated per subscription
    fl = set()
    for var in ("Error", "Terminate"):
        for p in v.arm(d, var):
            for i, e in ev_effects(p):
                if raises_flag(e):
                    fl.add(cell_key(e.cell))
    okf = len(fl) == 1
    if okf:
        k = list(fl)[0]
        okf = all(b == d for e, b in cell_writes(v, k[0])) and v.op.cells[k[0]].scope == "SUBSCRIPTION" and cell_init(v, k[0]) == 0
    ctx.ob("SCP-sub", "%s:disposal-flag" % v.name, okf, "the disposal flag is per subscription, initially false, written only by the talkback", v.loc(d))
    # spawn failure / success (REL-xor), spawn argument is the task, exactly one spawn per subscription
    probs = []
    n_ok = n_err = 0
    for p in returning(v.arm(r, "Handshake")):
        sig = [s for s in send_sig(v, r, "Handshake", p) if s[0] == "SINK"]
        spawns = [e for i, e in ev_effects(p) if e.kind == "spawn"]
        if len(spawns) != 1 or spawns[0].task != t:
            probs.append("not exactly one spawn of the task")
            continue
        dec = [a for (i, a, ev) in guards_before(p, len(p.events)) if a[0] == "discr" and a[1][0] == "call" and "nurse" in a[1][2]]
        if not dec:
            probs.append("spawn result not tested")
            continue
        if dec[0][2] == 1:
            n_err += 1
            okp = len(sig) == 1 and sig[0][1] == "Error"
            if okp:
                pl = sig[0][3].payload
                okp = any(x[0] == "someof" or (x[0] == "field" and x[1][0] == "downcast" and x[1][2] == "Err") for x in walk(pl))
            if not okp:
                probs.append("refusal path does not send exactly one Error carrying the spawn error")
        else:
            n_ok += 1
            if [(s[1], s[2]) for s in sig] != [("Handshake", "closure:DOWN")]:
                probs.append("accept path sends %s" % [s[1] for s in sig])
    ctx.ob("REL-xor", v.key(r, "Handshake", "REL-xor", "greet-or-refuse"), not probs and n_ok and n_err,
           "spawn failure: exactly one Error(spawn error) and nothing else; success: exactly one Handshake" if not probs else "; ".join(sorted(set(probs))), v.loc(r))


@prop("C16", "other",
      "The cycle shape of interval is proved on the coroutine's state-machine CFG (both configurations): per subscription ROOT.H "
      "allocates the counter (constant 0) and the disposal flag and spawns exactly one task; in the task, between entry or a previous "
      "emission and the next emission there is exactly one sleep(period) with period the factory parameter, and - after the await "
      "completed, with no further suspension point in between - one test of the disposal flag being false "
      "(ORD-sleep-check-send); each emission carries the value returned by its own unit increment of the counter, which nothing "
      "else writes; after seeing the flag the task ends without sending; the talkback only sets the flag on Error/Terminate and is "
      "silent otherwise; on the Err edge of the spawn exactly one Error carrying the spawn error is sent and nothing else, on the Ok "
      "edge exactly one Handshake (REL-xor). 'Exactly one number per elapsed period' and 'the first tick at which the disposal is "
      "visible' are decided as CFG shape only, relative to the timer axiom A8 - a timer and an executor are runtime objects (R-1).",
      axioms=["A5", "A8"])
def C16(ctx, model, tier, models):
    census_operators(ctx, model)
    n = 0
    for v in views(model):
        if v.family == "interval":
            interval_lemmas(ctx, v)
            n += 1
    ctx.ob("CEN-H", "interval-present", n == 1, "interval analysed")
    ctx.floor("ORD-sleep-check-send", 1)


# ============================================================================= C17 panic census

def panic_sites(v):
    """Every panic-capable effect occurrence: [(body, variant, path, idx, effect, class hint)]."""
    out = []
    for b in v.op.bodies:
        body = v.P.bodies[b]
        if body.tracing_prov:
            continue
        for var in (VARIANTS if body.is_handler() else [None]):
            for p in v.arm(b, var, inline=0):
                for i, e in ev_effects(p):
                    hint = None
                    if e.kind == "panic":
                        hint = e.pk
                    elif e.kind in ("other", "hocall") and e.get("callee") in ("std::ops::Index::index", "std::ops::IndexMut::index_mut"):
                        hint = "index"
                    elif e.kind in ("other", "hocall") and (e.get("callee") or "").endswith("::splice"):
                        hint = "splice"
                    elif e.kind == "localcall" and (e.get("callee") or "").endswith("Unwrap::unwrap"):
                        hint = "tuple-unwrap"
                    if hint:
                        out.append((b, var, p, i, e, hint))
    return out


def _stored_some_before(path, idx, ck):
    ok = False
    for i, e in ev_effects(path):
        if i >= idx:
            break
        if e.kind == "cell" and e.op == "store" and cell_key(e.cell) == ck:
            ok = e.value[0] == "agg" and e.value[2] == "Option::Some"
    return ok


def _none_stores(v, base):
    return [(e, b) for e, b in cell_writes(v, base) if e.kind == "cell" and e.op == "store" and e.value[0] == "agg" and e.value[2] == "Option::None"]


def _publications(v, handler):
    """(body, variant, path, idx) of every send that hands `handler` over as a Handshake payload."""
    out = []
    for b in v.op.bodies:
        body = v.P.bodies[b]
        for var in (VARIANTS if body.is_handler() else [None]):
            for p in v.arm(b, var):
                for s in send_sig(v, b, var, p):
                    pl = s[3].payload
                    if s[1] == "Handshake" and pl is not None and pl[0] == "agg" and pl[2] == handler:
                        out.append((b, var, p, s[4]))
    return out


def discharge_panic(v, b, var, p, i, e, hint, tbcells):
    """Return (class, ok, reason)."""
    role = v.op.roles.get(b)
    if e.tracing:
        return ("K-tracing", True, "written inside tracing's macros (tau)")
    if hint == "panic":
        dead = {"DOWN": {"Handshake", "Data"}, "UP": {"Pull"}, "UP_INNER": {"Pull"}}.get(role, set())
        ok = var in dead
        if not ok:
            # `let Some(x) = cell.load_full() else { panic!(..) }` / `match &*cell.load() { None => panic!(..), .. }`: an explicit panic
            # decided by the emptiness of a cell is an `expect` on that cell, and is discharged like one
            nones = [a for (_, a, _) in guards_before(p, i) if ((a[0] == "opt" and a[2] == "none") or (a[0] == "discr" and a[2] == 0)) and a[1][0] == "cellload"]
            if nones:
                shim = type("PanicAsExpect", (), {"subject": ("someof", nones[-1][1]), "tracing": False, "loc": e.loc, "site": e.site, "kind": "panic"})()
                return discharge_panic(v, b, var, p, i, shim, "expect", tbcells)
        return ("K-dead", ok, "explicit panic in %s.%s: %s" % (role, VSHORT.get(var, "-"),
                "the arm's variant cannot arrive (A4/A5; DOWN.D by type, W1)" if ok else "this arm is reachable under the protocol"))
    if hint in ("expect", "unwrap", "unwrap_unchecked"):
        subj = e.subject
        if any(x[0] == "phi" for x in walk(subj)):
            # the unwrapped value went through a helper's `-> Option<..>` (`cell.load_full()?; ..; Some(())`): what it is on this path
            rs = resolve_phis(p, i, subj)
            while rs[0] == "someof" and rs[1][0] == "agg":
                rs = rs[1]
            if rs[0] == "agg" and rs[1] == "adt" and rs[2] in ("Option::Some", "Result::Ok"):
                return ("K-value", True, "the unwrapped value is Some / Ok on this path by construction")
            if rs[0] == "agg" and rs[1] == "adt" and rs[2] == "Option::None":
                nones = [a for (_, a, _) in guards_before(p, i) if ((a[0] == "opt" and a[2] == "none") or (a[0] == "discr" and a[2] == 0)) and a[1][0] == "cellload"]
                if nones:
                    shim = type("NoneAsExpect", (), {"subject": ("someof", nones[-1][1]), "tracing": False, "loc": e.loc, "site": e.site, "kind": "panic"})()
                    return discharge_panic(v, b, var, p, i, shim, "expect", tbcells)
        loads = [x for x in walk(subj) if x[0] == "cellload"]
        locks = [x for x in walk(subj) if x[0] == "lock"]
        if subj[0] == "lock":
            # K-lock: unwrap of a lock result: poisoned only if something panicked while holding it; nothing re-enters while held
            open_guards = 0
            bad = False
            for ev in p.events:
                if ev[0] == "eff" and ev[1].kind == "lock":
                    open_guards += 1
                elif ev[0] == "dropguard":
                    open_guards = max(0, open_guards - 1)
                elif ev[0] == "eff" and ev[1].kind in ("send", "thunk", "usercall", "indirect") and open_guards > 0:
                    bad = True
            return ("K-lock", not bad, "lock().unwrap(): the locked regions contain no send and no call except the iterator's next" if not bad else "a send / callback happens while a lock guard is alive")
        if loads:
            ld = loads[0]
            ck = cell_key(ld[1])
            cls = v.m.recv_class(v.op, ("someof", ld))
            if cls[0] == "THUNKCELL":
                none = _none_stores(v, ck[0])
                # stored before the first call of the thunk in ROOT.H (C09 lemma) and never cleared
                r = v.root
                okp = True
                for pp in returning(v.arm(r, "Handshake", inline=0)):
                    st = [j for j, x in ev_effects(pp) if x.kind == "cell" and x.op == "store" and base_key(x.cell) == ck[0]]
                    th = [j for j, x in ev_effects(pp) if x.kind == "thunk"]
                    if not st or (th and st[0] > th[0]):
                        okp = False
                return ("K-thunk", okp and not none, "thunk cell stored before the first call and never cleared" if okp and not none else "thunk cell may be empty when called")
            if opt_guarded(p, i, ld):
                return ("K-init", True, "the same cell was just seen to be Some (no send in between)")
            if _stored_some_before(p, i, ck):
                return ("K-init", True, "stored Some earlier on the same path")
            none = _none_stores(v, ck[0])
            if none:
                return ("K-init", False, "cell can be cleared (%s) and this expect is not guarded" % none[0][0].loc)
            # never cleared: who stores it, and is that ordered before this site can run?
            storers = [(h, st) for h, st in tbcells.get(ck[0], []) if cell_key(st.cell) == ck] or [(h, st) for h, st in tbcells.get(ck[0], [])]
            if not storers:
                return ("K-init", False, "no store of Some into this cell found")
            if v.family == "combine" and role == "DOWN":
                # every member stores its slot before decrementing n_start; the talkback is published by the N-th decrement
                okm = True
                for h in v.by_role("UP"):
                    for pp in returning(v.arm(h, "Handshake")):
                        st = [j for j, x in ev_effects(pp) if x.kind == "cell" and x.op == "store" and x.value[0] == "agg" and x.value[2] == "Option::Some"]
                        rm = [j for j, x in ev_effects(pp) if x.kind == "atomic" and x.op == "fetch_sub"]
                        if not st or not rm or st[0] > rm[0]:
                            okm = False
                    for pp in v.arm(h, "Handshake"):
                        for s in send_sig(v, h, "Handshake", pp):
                            if s[1] == "Handshake" and s[0] == "SINK":
                                g = grd_once(v, pp, s[4])
                                if not (g and g["post_offset"] == 0 and g["init"] == len(v.by_role("UP")) and g["uniform"]):
                                    okm = False
                return ("K-init", okm, "all N member slots are stored before the N-th decrement of n_start publishes the talkback" if okm else "talkback may be published before every member slot is stored")
            if role == "DOWN":
                pubs = _publications(v, b)
                bad = [1 for (pb, pv, pp, pi) in pubs if not _stored_some_before(pp, pi, ck)]
                return ("K-init", bool(pubs) and not bad,
                        "every publication of this talkback is dominated by the store" if pubs and not bad else
                        "the talkback is published on a path that has not stored the cell (%d of %d publications)" % (len(bad), len(pubs)))
            if role in ("UP", "UP_INNER") and var != "Handshake":
                okh = all(any(x.kind == "cell" and x.op == "store" and cell_key(x.cell) == ck and x.value[2] == "Option::Some" for j, x in ev_effects(pp)) for pp in returning(v.arm(b, "Handshake")))
                same = any(h == b for h, _ in storers)
                return ("K-init", okh and same, "the handler's own Handshake arm (which A1 orders first) stores the cell on every path" if okh and same else "the cell is not stored by this handler's Handshake arm on every path")
            if role == "THUNK":
                # a local closure called from handler arms (`let request_next = || ..`): the expect is judged where it runs, on
                # each caller's path with the closure's events in place
                callers = thunk_callers(v, b)
                results = []
                for (cb, cv, ce) in callers:
                    for pp in v.arm(cb, cv, inline=1):
                        for jj, x in ev_effects(pp):
                            if x.site == e.site and x.kind == e.kind:
                                results.append(discharge_panic(v, cb, cv, pp, jj, x, hint, tbcells))
                if callers and results and all(r[1] for r in results):
                    return ("K-init", True, "in every calling arm: " + results[0][2])
                if results:
                    bad = [r for r in results if not r[1]][0]
                    return ("K-init", False, "in a calling arm: " + bad[2])
            return ("K-init", False, "expect on a talkback cell in %s.%s has no discharge" % (role, VSHORT.get(var, "-")))
        if locks or any(x[0] == "call" and x[2].endswith("::take") for x in walk(subj)):
            # K-value: res.take().unwrap() behind res_done == false, res_done := res.is_none() in the same iteration
            okv = False
            why = "value cell unwrap not guarded by the emptiness flag written in the same iteration"
            lk = [x for x in walk(subj) if x[0] == "lock"]
            if lk:
                vck = cell_key(lk[0][1])
                fl = [(j, a) for j, a, _ in guards_before(p, i) if a[0] == "bool" and flag_observation(a[1]) is not None and a[2] is False]
                for j, a in fl:
                    fck = cell_key(a[1][1])
                    sts = [(jj, x) for jj, x in ev_effects(p) if jj < j and x.kind == "atomic" and x.op == "store" and cell_key(x.cell) == fck]
                    if not sts:
                        continue
                    jj, st = sts[-1]
                    opnd = st.operand
                    if opnd is not None and opnd[0] == "call" and opnd[2].endswith("::is_none") and any(x[0] == "lock" and cell_key(x[1]) == vck for x in walk(opnd)):
                        between = [x for q, x in ev_effects(p) if jj < q < i and (x.kind in ("send", "thunk", "usercall") or (x.kind == "pstore" and any(y[0] == "lock" and cell_key(y[1]) == vck for y in walk(x.place))))]
                        if not between:
                            okv, why = True, "guarded by the flag `value is none` == false, written from this very cell in the same iteration with no send in between"
            return ("K-value", okv, why)
        return ("K-unknown", False, "unwrap/expect of %s" % show(subj)[:60])
    if hint == "tuple-unwrap":
        dec = [a for (_, a, _) in guards_before(p, i) if counter_zero_decision(a) is not None and counter_zero_decision(a)[0]]
        rc = [j for j, x in ev_effects(p) if j < i and x.kind == "cell" and x.op == "rcu"]
        rm = [j for j, x in ev_effects(p) if j < i and x.kind == "atomic" and x.op == "fetch_sub"]
        ok = bool(dec) and bool(rc) and (not rm or rc[0] < rm[0])
        rce = [x for j, x in ev_effects(p) if j < i and x.kind == "cell" and x.op == "rcu"]
        clo = bool(rce) and combine_rcu_closure_ok(v, b, rce[0], member_index(v, b))
        if ok and not clo:
            return ("K-count", False, "the rcu closure does not publish Some(datum.clone()) into the member's own slot on every (re-)run: a slot counted as filled may be None")
        return ("K-count", ok, "tuple unwrap guarded by n_data == 0, read after this member's publication (closure: slot := Some(d.clone())), counter announced after publishing" if ok else "tuple unwrap not behind n_data == 0 / publication order")
    if hint.startswith("assert:overflow"):
        subj = resolve_phis(p, i, e.subject)      # an operand that went through `let x = match ..` / `.ok().map(..)` reads as on this path
        inner = subj[1] if subj[0] == "overflowed" else subj
        if inner[0] == "binop":
            a, k = inner[2], inner[3]
            if a[0] == "const" and k[0] != "const" and inner[1].startswith("Add"):
                a, k = k, a      # addition commutes
            base = a
            while base[0] == "someof":
                base = base[1]
            if base[0] == "rmw" and base[2] == "fetch_add" and inner[1].startswith("Add"):
                return ("K-arith", True, "post-increment of an event counter: bounded by the number of deliveries (2^64 residue)")
            if base[0] == "rmw" and base[2] == "fetch_update" and inner[1].startswith("Add"):
                return ("K-arith", True, "previous value admitted by the update, hence < max")
            if base[0] == "rmw" and base[2] == "fetch_update" and inner[1].startswith("Sub") and k[0] == "const" and k[3] == 1 and is_countdown_update(v, p, base[4]):
                return ("K-arith", True, "previous value admitted by the count-down update, hence >= 1")
            if base[0] == "rmw" and base[2] == "fetch_sub" and inner[1].startswith("Sub"):
                ck = cell_key(base[1])
                init = cell_init(v, ck[0])
                ws = cell_writes(v, ck[0])
                # at most `init` decrements: one site per member arm (A1/A2) or slot-guarded
                n_sites = len({(x.site) for x, _ in ws})
                ok = init is not None and init >= 1 and all(x.kind == "atomic" and x.op == "fetch_sub" for x, _ in ws)
                return ("K-arith", ok, "counter from %s decremented once per member (%d sites): the value returned is >= 1" % (init, n_sites) if ok else "decrement of a counter that may be 0")
            if base[0] != "param" and inner[1].startswith("Add") and k[0] == "const" and k[3] == 1:
                lt = [g for (_, g, _) in guards_before(p, i) if g[0] == "cmp" and g[3] == "<" and g[1] == base and g[4] <= 0]
                if lt:
                    return ("K-arith", True, "x + 1 behind x < bound on the same value")
            if base[0] == "param" and inner[1].startswith("Add"):
                lt = [g for (_, g, _) in guards_before(p, i) if g[0] == "cmp" and g[3] == "<" and g[1] == base]
                if not lt:
                    # `(t < max).then(|| t + 1)`: the closure runs only if the receiver is true
                    for pb in v.op.bodies:
                        for x in v.all_effects(pb):
                            if x.kind == "hocall" and x.callee.endswith("bool>::then") and b in (x.get("closures") or []) and x.args:
                                g = norm_pred(x.args[0], 1)
                                if g[0] == "cmp" and g[3] == "<" and g[1] == base:
                                    lt.append(g)
                return ("K-arith", bool(lt), "t + 1 behind t < max" if lt else "unguarded increment of a parameter")
            if inner[1].startswith("Sub") and _is_member_count(v, base) and k[0] == "const" and k[3] == 1 and v.op.roles.get(b) in ("UP", "UP_INNER"):
                return ("K-arith", True, "member count - 1 inside a member handler: a member handler runs only if there is at least one member")
            if any(x[0] == "call" and x[2].endswith("::position") for x in walk(base)) or base[0] in ("upvar", "someof"):
                return ("K-arith", True, "index + 1 with the index obtained from `position` on a live list")
        return ("K-arith", False, "arithmetic assertion %s on %s" % (hint, show(subj)[:60]))
    if hint == "index":
        coll, ix = e.args[0], e.args[1]
        # (a) loop variable of 0..n over a collection of n elements
        if ix[0] == "someof" and ix[1][0] == "call" and ix[1][2] == "std::iter::Iterator::next":
            src = ix[1][3][0]
            if src[0] == "agg" and src[2].startswith("Range::") and src[3][0][0] == "const" and src[3][0][3] == 0 and _is_member_count(v, src[3][1]):
                sized = any(_is_member_count(v, x) for x in walk(coll) if x[0] == "call" and x[2].endswith("::len")) or any(is_factory_param(v, x) for x in walk(coll) if x[0] == "param")
                if any(x[0] == "cellload" for x in walk(coll)):
                    sized = False      # a live list re-read per iteration may have shrunk since its length was taken
                return ("K-index", sized, "index ranges over 0..n with n the length of the indexed collection" if sized else "range variable indexes an unrelated (or live, re-read) collection")
        if ix[0] in ("upvar", "param"):
            return ("K-index", True, "captured loop index of the subscribing iteration")
        # (b) concat: sources[i.load()] behind i != n
        if ix[0] == "aload":
            ck = cell_key(ix[1])
            ne = [a for (_, a, _) in guards_before(p, i) if a[0] == "cmp" and a[3] == "!=" and a[4] == 0 and counter_term(a[1]) and counter_term(a[1])[1] == ck and a[2] is not None and _is_member_count(v, a[2])]
            ws = cell_writes(v, ck[0])
            mono = all(x.kind == "atomic" and x.op == "fetch_add" and x.operand[3] == 1 for x, _ in ws) and cell_init(v, ck[0]) == 0
            nosend = True
            if ne:
                gi = [j for j, a, _ in guards_before(p, i) if a[0] == "cmp" and a[3] == "!="][0]
                nosend = not [1 for j, x in ev_effects(p) if gi < j < i and x.kind == "send"]
            ok = bool(ne) and mono and nosend
            return ("K-index", ok, "index i read right after i != n, i monotone from 0 by +1 (so i < n)" if ok else "index load not dominated by i != n on a monotone index")
        return ("K-index", False, "index expression %s" % show(ix)[:60])
    if hint == "splice":
        rng = e.args[1] if len(e.args) > 1 else None
        ok = rng is not None and rng[0] == "agg" and rng[2].startswith("Range::") and lin(rng[3][1]) == (rng[3][0], 1)
        return ("K-index", ok, "splice(i..i+1) with i captured from `position` on the list (sequentially the list is unchanged in between)" if ok else "splice range is not i..i+1")
    if hint.startswith("assert:bounds"):
        subj = e.subject
        if subj[0] == "binop" and subj[1] == "Lt":
            ix, ln = subj[2], subj[3]
            coll = ln[2] if ln[0] == "unop" else ln
            fake = Effect("other", e.site, e.s, callee="std::ops::Index::index", args=[coll, ix])
            cls, ok, why = discharge_panic(v, b, var, p, i, fake, "index", tbcells)
            return (cls, ok, "bounds check: " + why)
        return ("K-index", False, "compiler bounds check on %s" % show(subj)[:60])
    if hint in ("assert:misaligned", "assert:nullptr"):
        return ("K-compiler", True, "debug-build pointer validity check on a reference the borrow checker already guarantees (not a protocol assertion)")
    return ("K-unknown", False, hint)


@prop("C17", "other",
      "Exhaustive census (CEN-P) of panic-capable MIR sites - explicit panic!, expect / unwrap, compiler-inserted overflow "
      "assertions, Index::index, Vec::splice, the tuple Unwrap - in every body of every operator (12 combine arities, both feature "
      "configurations); each site must fall into a discharge class whose lemma holds on every path through it: K-dead (the arm's "
      "incoming variant cannot arrive: DOWN.H / DOWN.D / UP.P; DOWN.D by type, W1), K-init (expect on a talkback cell: Some-guarded "
      "on the same path, or stored earlier on the path, or the cell is never cleared and its store dominates every publication of "
      "the handler containing the expect / the handler's own Handshake arm stores it on every path; combine: all N slots stored "
      "before the N-th decrement publishes the talkback), K-thunk (concat's next_ref), K-lock (no send while a lock guard is alive), "
      "K-value (from_iter's value cell behind the emptiness flag of the same iteration), K-count (combine's tuple unwrap behind "
      "n_data == 0 after publication), K-arith, K-index, K-tracing. A site in no class is an undischarged panic site. One K-init "
      "instance fails on this tree and is a recorded finding: share greets later sinks in ROOT without the upstream talkback having "
      "been stored when the upstream greets late (KF-6). Not decided: panics inside user closures / iterators; overflow after 2^64 "
      "events.",
      axioms=["A1", "A2", "A4", "A5", "A6"])
def C17(ctx, model, tier, models):
    census_operators(ctx, model)
    total = 0
    classes = {}
    for v in views(model):
        tbcells = v.talkback_cells()
        per_site = {}
        for (b, var, p, i, e, hint) in panic_sites(v):
            cls, ok, why = discharge_panic(v, b, var, p, i, e, hint, tbcells)
            k = (b, e.site, hint)
            # is the site reached only when share's list was seen empty (the last detach)?
            when_last = any(a[0] == "bool" and a[2] is True and a[1][0] == "call" and a[1][2].endswith("::is_empty") for (_, a, _) in guards_before(p, i))
            cur = per_site.get(k)
            if cur is None:
                per_site[k] = [cls, ok, why, e, {var}, when_last]
            else:
                cur[4].add(var)
                cur[5] = cur[5] and when_last
                if not ok and cur[1]:
                    cur[0], cur[1], cur[2] = cls, ok, why
        for (b, site, hint), (cls, ok, why, e, arms, when_last) in sorted(per_site.items(), key=lambda kv: str(kv[0])):
            total += 1
            classes[cls] = classes.get(cls, 0) + 1
            armtxt = "".join(sorted(VSHORT.get(a, "-") for a in arms))
            key = "%s:%s:%s:%s" % (v.name, v.label(b), cls, armtxt)
            if v.family == "share" and cls == "K-init" and not ok and v.op.roles.get(b) == "DOWN" and "published on a path that has not stored the cell" in why:
                # KF-6 is recorded per arm set and per guard: an expect that moves out of the last-detach branch, or a new one in
                # another arm, is a different site and is reported
                key = "share:DOWN.%s:K-init:later-sink-published-before-store%s" % (armtxt, ":on-last-detach" if when_last else "")
            if v.family == "combine":
                key = "%s:%s:%s:%s" % (v.name, v.generic_label(b), cls, armtxt)
            ctx.ob("CEN-P", key, ok, "%s: %s" % (hint, why), e.loc)
    ctx.ob("CEN-P", "census:total", total >= 60, "%d panic-capable sites classified: %s" % (total, dict(sorted(classes.items()))))
    ctx.floor("CEN-P", 60)


# ============================================================================= C18 / C19 atomicity

GOOD_ORD = {"load": {"Acquire", "SeqCst"}, "store": {"Release", "SeqCst"}}
RMW_ORD = {"AcqRel", "SeqCst"}


def lemma_atm_order(ctx, v):
    """ATM-order: no Relaxed (or too weak) ordering on any atomic access of the operator."""
    bad = []
    n = 0
    for b in v.op.bodies:
        for e in v.all_effects(b):
            if e.kind != "atomic" or e.tracing:
                continue
            n += 1
            ords = e.orderings
            if e.op in ("load", "store"):
                ok = len(ords) == 1 and ords[0] in GOOD_ORD[e.op]
            elif e.op in ("fetch_update", "compare_exchange", "compare_exchange_weak"):
                ok = len(ords) == 2 and ords[0] in RMW_ORD and ords[1] in ("Acquire", "SeqCst")
            else:
                ok = len(ords) == 1 and ords[0] in RMW_ORD
            if not ok:
                bad.append("%s with %s at %s" % (e.op, ords, e.loc))
    ctx.ob("ATM-order", "%s:ATM-order" % v.name, not bad and n > 0,
           "all %d atomic accesses use acquire/release (or stronger) orderings" % n if not bad else "; ".join(bad[:3]), v.loc(v.op.id))


def lemma_atm_no_cta(ctx, v, h, variants):
    """ATM-no-cta: in a member arm no branch on a plain load of an atomic guards a write of the same atomic."""
    bad = []
    for var in variants:
        for p in v.arm(h, var):
            for (i, a, ev) in guards_before(p, len(p.events)):
                cells = set()
                for x in walk(ev[1]):
                    if x[0] == "aload":
                        cells.add(cell_key(x[1]))
                for ck in cells:
                    later = [e for j, e in ev_effects(p) if j > i and e.kind == "atomic" and e.op != "load" and cell_key(e.cell) == ck]
                    if later:
                        bad.append("%s.%s: load of %s decides a later %s of the same atomic (%s)" % (v.label(h), VSHORT[var], v.cellname(later[0].cell), later[0].op, later[0].loc))
    ctx.ob("ATM-no-cta", v.key(h, None, "ATM-no-cta"), not bad, "no check-then-act on an atomic in the member arms" if not bad else "; ".join(sorted(set(bad))[:3]), v.loc(h))


def lemma_atm_rcu(ctx, v):
    """ATM-rcu: value/list cells written from member arms are updated through rcu only (never load-modify-store)."""
    bad = []
    n = 0
    tb = v.talkback_cells()
    for k, c in v.op.cells.items():
        if k in tb:
            continue
        ws = [(e, b) for e, b in cell_writes(v, k) if e.kind == "cell"]
        for e, b in ws:
            n += 1
            if e.op != "rcu" and v.op.roles.get(b) in ("UP", "UP_INNER"):
                bad.append("%s written by %s at %s" % (c.name, e.op, e.loc))
    ctx.ob("ATM-rcu", "%s:ATM-rcu" % v.name, not bad, "shared value cells are updated by rcu (CAS loop) only (%d writes)" % n if not bad else "; ".join(bad[:3]), v.loc(v.op.id))


@prop("C18", "other",
      "Static atomicity analysis instead of schedule exploration, for merge and all 12 combine arities, both configurations; W3 "
      "(thorough) pins that every captured cell is a Send + Sync type, so races are logical only. Once-clauses by counter "
      "monotonicity, which is interleaving-independent: greeting GRD-once (merge post(start_count)==1 from 0; combine "
      "post(n_start)==0 from N) and completion GRD-once (end_count==n / n_end==0), every write of each counter being the same "
      "unit-step AcqRel RMW; merge's Data arm is a stateless relay (nothing to race on); combine: ATM-single-writer (slot idx of both "
      "tuples is touched only by member idx, the handlers cover 0..N-1), ATM-rcu (the value tuple is updated by CAS loop only), "
      "ORD-pub-signal (the rcu publication dominates the n_data RMW that announces it - FIX-2), the emitting test n_data == 0 is on a "
      "value obtained after the thread's own publication and the tuple is loaded after it; ATM-no-cta on all member arms; ATM-order "
      "(no Relaxed; loads Acquire, stores Release, RMWs AcqRel - the property's SC-granularity premise). No interleavings are "
      "enumerated; clauses the property does not list (a datum racing a sibling's error) are not claimed; weak-memory behaviour "
      "beyond the orderings present is not analysed.",
      axioms=["A1", "A2", "A6 (per member)"])
def C18(ctx, model, tier, models):
    census_operators(ctx, model)
    n = 0
    for v in views(model):
        if v.family == "merge":
            merge_lemmas(ctx, v)
        elif v.family == "combine":
            combine_lemmas(ctx, v)
        else:
            continue
        n += 1
        lemma_atm_order(ctx, v)
        lemma_atm_rcu(ctx, v)
        for h in v.by_role("UP"):
            lemma_atm_no_cta(ctx, v, h, ("Handshake", "Data", "Error", "Terminate"))
    unwrap_impl_lemma(ctx, model)
    ctx.ob("CEN-H", "fan-in-operators", n == 13, "%d fan-in operators analysed (merge + 12 combine arities)" % n)
    ctx.floor("ATM-no-cta", 79)
    ctx.floor("ATM-order", 13)
    ctx.floor("GRD-once", 2 + 78 * 4)


@prop("C19", "other",
      "Structural proof for every max >= 1 and any number of racing deliveries (both configurations): take's admission decision is "
      "made by the atomic update of the counter itself - a fetch_update whose closure yields Some(t+1) iff t < max (closure lemma; "
      "normal form pre(taken) < max), or a comparison on an RMW's own result - never by a separate load (ATM-no-cta, FIX-1); the "
      "counter starts at 0, has no other writer, and so never exceeds max: at most max deliveries are admitted under every "
      "interleaving; the datum is forwarded exactly once per admitted delivery, unchanged; completion is guarded by post(taken) == max "
      "on the value the winning update returned (unique thread), which then sets the end flag, sends Terminate upstream and then to "
      "the sink, exactly once each; ATM-order on all of take's atomics. The relative order of the winner's Terminate and a slower "
      "thread's in-flight Data is not claimed (nor does the property claim it).",
      axioms=["A6 (per delivering thread)"])
def C19(ctx, model, tier, models):
    census_operators(ctx, model)
    n = 0
    for v in views(model):
        if v.family != "take":
            continue
        n += 1
        h = v.by_role("UP")[0]
        ck = lemma_take_admission(ctx, v, h)
        # no other writer of the counter
        if ck:
            ws = cell_writes(v, ck[0])
            ok = len(ws) == 1 and ws[0][1] == h and site_arms(v, h, ws[0][0].site) == ["Data"]
            ctx.ob("ATM-single-writer", v.key(h, "Data", "ATM-single-writer", "counter"), ok, "the admission update is the counter's only write (%d write sites)" % len(ws), v.loc(h))
        # ATM-no-cta on the counter specifically
        bad = []
        for p in v.arm(h, "Data"):
            for s in send_sig(v, h, "Data", p):
                if s[0] != "SINK":
                    continue
                for (i, a, ev) in guards_before(p, s[4]):
                    if a[0] == "cmp" and counter_term(a[1]) and counter_term(a[1])[0] == "cur" and ck and counter_term(a[1])[1] == ck:
                        if cas_validated_pre(p, a[1]) is not None:
                            continue    # the loaded value was confirmed by a successful compare_exchange(v, v + 1) on this path: that CAS decides
                        cc = cas_claim_path(v, p, True)
                        if cc is not None and cc[0] and not cc[1]:
                            continue    # an earlier observation of a well-formed claim loop; a later compare_exchange admitted the delivery
                        bad.append("send of %s to the sink is decided by a plain load of the counter" % s[1])
        ctx.ob("ATM-no-cta", v.key(h, "Data", "ATM-no-cta", "counter"), not bad, "no send is decided by a separate load of the counter" if not bad else bad[0], v.loc(h))
        for e, b, arms in terminal_sink_sends(v):
            if arms == ["Data"]:
                _take_completion(ctx, v, b, e)
        lemma_atm_order(ctx, v)
        # exactly one upstream Terminate site in UP.D and it sits behind the same once-guard (checked in _take_completion)
        ups = [(e, b) for e, b in upstream_terminal_sends(v) if b == h]
        ctx.ob("PL-term-up", v.key(h, "Data", "PL-term-up", "single-site"), len(ups) == 1, "%d upstream terminal site(s) in the Data arm" % len(ups), v.loc(h))
    ctx.ob("CEN-H", "take-present", n == 1, "take analysed")
    ctx.floor("GRD-cmp", 1)
    ctx.floor("GRD-once", 1)


# ============================================================================= C20 tracing inertness (EQV-cfg)

def canon(e, depth=0):
    """Configuration-independent rendering of an expression (no block numbers, no closure indices)."""
    if not isinstance(e, tuple) or not e:
        return str(e)
    if depth > 8:
        return "…"
    t = e[0]
    c = lambda x: canon(x, depth + 1)
    if t == "param": return "param%d@%s" % (e[2], BODYKEY.get(e[1], e[1]))
    if t == "self": return "self"
    if t == "upvar": return "upvar%d" % e[2]
    if t == "saved": return "saved"
    if t == "const": return str(e[2])
    if t == "field": return "%s.%s" % (c(e[1]), e[2])
    if t == "downcast": return "(%s as %s)" % (c(e[1]), e[2])
    if t == "index": return "%s[%s]" % (c(e[1]), c(e[2]))
    if t == "agg":
        if e[1] in ("closure", "coroutine"):
            if e[2] not in BODYKEY and SKELETON_PROG is not None and e[2] in SKELETON_PROG.bodies:
                # a closure absorbed into its caller (inlined helper closure, closure of an iterator chain): named by where it is written
                b = SKELETON_PROG.bodies[e[2]]
                anc = SKELETON_PROG.ancestors(e[2])
                return "closure<%s@%s>" % (anc[-1] if anc else e[2], b.span.get("sp"))
            return "closure<%s>" % BODYKEY.get(e[2], e[2])
        return "%s(%s)" % (e[2] or e[1], ",".join(c(x) for x in e[3]))
    if t == "call":
        nm = e[2].split("::")[-1]
        if nm in ("clone", "instrument") and e[3]:
            return c(e[3][0])      # Clone of a user value / tracing_futures' wrapper: the same peer as far as the protocol goes
        return "%s(%s)" % (nm, ",".join(c(x) for x in e[3]))
    if t == "someof": return "some(%s)" % c(e[1])
    if t in ("cellload", "aload", "lock"): return "%s[%s]" % (t, c(e[1]))
    if t == "rmw": return "rmw_%s[%s,%s]" % (e[2], c(e[1]), c(e[3]))
    if t == "binop": return "%s(%s,%s)" % (e[1], c(e[2]), c(e[3]))
    if t == "unop": return "%s(%s)" % (e[1], c(e[2]))
    if t in ("discr", "cast"): return "%s(%s)" % (t, c(e[1]))
    if t == "phi": return "phi(%s)" % ",".join(sorted(c(x) for x in e[1]))
    if t == "overflowed": return "ovf(%s)" % c(e[1])
    return t

BODYKEY = {}
BODYKEYS = {"default": {}, "tracing": {}}


SKELETON_PROG = None


def body_pair_key(model, bid):
    b = model.prog.bodies[bid]
    op = model.body_op.get(bid, "?")
    return "%s@%s" % (op, b.span.get("sp"))


def skeleton(v, bid, var):
    """Set of visible-event sequences of one arm (tau removed)."""
    global BODYKEY, SKELETON_PROG
    BODYKEY = BODYKEYS[v.P.config]
    SKELETON_PROG = v.P
    out = set()
    for p in v.arm(bid, var, inline=0):
        toks = []
        for idx, ev in enumerate(p.events):
            if ev[0] == "eff":
                e = ev[1]
                if e.tracing or not effect_visible(v.P, e):
                    continue
                if e.kind == "send":
                    # the payload as it reads on this path (a value that went through `let x = match ..` is resolved)
                    pl = resolve_phis(p, idx, e.payload) if e.payload is not None else None
                    toks.append("send:%s:%s:%s" % (v.cls_of(e)[0], e.variant, canon(pl) if pl is not None else "-"))
                elif e.kind == "atomic":
                    if e.op == "load":
                        continue
                    toks.append("atomic:%s:%s:%s:%s" % (canon(e.cell), e.op, canon(e.operand) if e.operand is not None else "-", ",".join(e.orderings)))
                elif e.kind == "cell":
                    if e.op in ("load", "load_full"):
                        continue
                    toks.append("cell:%s:%s:%s" % (canon(e.cell), e.op, canon(e.value) if e.value is not None else "-"))
                elif e.kind == "pstore":
                    toks.append("pstore:%s:%s" % (canon(e.place), canon(e.value) if isinstance(e.value, tuple) else e.value))
                elif e.kind == "usercall":
                    toks.append("user:%s(%s)" % (canon(e.fn), ",".join(canon(a) for a in e.args)))
                elif e.kind == "thunk":
                    toks.append("thunk:%s" % BODYKEY.get(e.target, e.target))
                elif e.kind == "panic":
                    if e.pk.startswith("assert"):
                        continue
                    toks.append("panic:%s" % e.pk)
                elif e.kind == "spawn":
                    toks.append("spawn:%s" % BODYKEY.get(e.task, e.task))
                elif e.kind == "sleep":
                    toks.append("sleep:%s" % canon(e.period))
                elif e.kind in ("iternext", "poll", "lock", "localcall", "indirect"):
                    toks.append("%s" % e.kind)
            if ev[0] == "eff" and ev[1].kind == "usertrait" and not ev[1].tracing:
                cal = ev[1].get("callee") or ""
                if not cal.endswith(("::is_none", "::is_some", "::take", "type_name")) and not cal.startswith(("std::sync::RwLock", "arc_swap::")):
                    toks.append("usercode:%s" % cal.split("::")[-1])
            elif ev[0] == "br":
                toks.append("if:%s=%s" % (canon(ev[1]), ev[2]))
            elif ev[0] == "yield":
                toks.append("yield")
        out.add(" ; ".join(toks) + " => " + p.end)
    return out


def cfg_census(ctx):
    """CEN-CFG: the only cfg predicates inside src/*.rs bodies / generic parameter lists are feature = "tracing"
    (and, at module level in lib.rs, the per-operator features and doctest)."""
    import os, glob
    repo = os.environ.get("CB_REPO", "/repo")
    bad = []
    n = 0
    op_feats = {"combine", "concat", "filter", "flatten", "for_each", "from_iter", "interval", "map", "merge", "pipe", "scan", "share", "skip", "take"}
    for f in sorted(glob.glob(os.path.join(repo, "src", "**", "*.rs"), recursive=True)):
        rel = os.path.relpath(f, repo)
        txt = open(f).read()
        # strip comments
        txt2 = re.sub(r"//[^\n]*", "", txt)
        for m in re.finditer(r"cfg(?:_attr)?\s*[!]?\s*\(", txt2):
            # extract the balanced predicate
            i = m.end()
            depth = 1
            j = i
            while j < len(txt2) and depth:
                depth += txt2[j] == "("
                depth -= txt2[j] == ")"
                j += 1
            pred = re.sub(r"\s+", " ", txt2[i:j - 1]).strip()
            if "cfg_attr" in m.group(0):
                pred = pred.split(",")[0].strip()
            n += 1
            feats = set(re.findall(r'feature\s*=\s*"([^"]+)"', pred))
            rest = re.sub(r'feature\s*=\s*"[^"]+"', "", pred)
            rest = re.sub(r"\b(not|all|any)\b|[(),\s]", "", rest)
            ok = False
            if feats == {"tracing"} and rest == "":
                ok = True
            elif rel == "src/lib.rs" and feats <= op_feats and rest == "":
                ok = True
            elif rel == "src/lib.rs" and pred == "doctest":
                ok = True
            elif feats and feats <= op_feats and rest == "" and not re.search(r"\bnot\b", pred):
                # a positive combination of per-operator features (any / all) on an item shared by several operators: it can only
                # remove the item where no operator uses it; no alternative code exists under its negation
                ok = True
            if not ok:
                bad.append("%s: cfg(%s)" % (rel, pred))
        for m in re.finditer(r"#\[cfg\(feature = \"tracing\"\)\]\s*\n?\s*([^\n]*)", txt2):
            pass
    # cfg_if! blocks: only `if #[cfg(feature = "tracing")]` is accepted (the regex above already saw their cfg(...) predicates)
    ctx.ob("CEN-CFG", "cfg-census", not bad, "%d cfg predicates in src/: only feature=\"tracing\" inside bodies / generics" % n if not bad else "unexpected cfg predicate(s): %s" % bad[:3])


def cfg_gated_statements(ctx):
    """Statements under #[cfg(feature = "tracing")] may only define tracing values: the gated item/statement must mention
    only spans (Span / *_span / enter / entered / instrument / trace_span / fmt / use)."""
    import os, glob
    repo = os.environ.get("CB_REPO", "/repo")
    bad = []
    n = 0
    for f in sorted(glob.glob(os.path.join(repo, "src", "*.rs"))):
        lines = open(f).read().split("\n")
        for i, ln in enumerate(lines):
            if re.match(r'\s*#\[cfg\(feature = "tracing"\)\]\s*$', ln):
                # the gated statement: following lines up to the first line ending in ';' or '{' at depth 0 or a generic parameter ','
                stmt = ""
                j = i + 1
                while j < len(lines):
                    stmt += lines[j].strip() + " "
                    if re.search(r"[;,{]\s*$", lines[j]) or lines[j].strip().endswith(")"):
                        break
                    j += 1
                n += 1
                s = stmt.strip()
                ok = bool(re.match(r"^(use \{?[\w:, {}\n]*|let _?\w+ = [\w_]*span[\w_]*\.(enter|clone|entered)\(\);?|let \w*span\w* = (Span::current\(\)|[\w_]*span[\w_]*\.clone\(\));?|[A-Z]\w*: [\w:+ ']*fmt::Debug[\w:+ ']*,?|let nursery = nursery|\.clone\(\)|\.instrument\(.*)", s))
                if not ok:
                    # a `let x = ..` with a `#[cfg(not(feature = "tracing"))] let x = ..` twin next to it: both versions are in
                    # the analysed MIR of their configuration and compared by EQV-cfg; nothing is hidden from it
                    mlet = re.match(r"^let (mut )?(\w+)\b", s)
                    if mlet:
                        near = lines[max(0, i - 6):i] + lines[j + 1:j + 7]
                        for q, ln2 in enumerate(near[:-1]):
                            if re.match(r'\s*#\[cfg\(not\(feature = "tracing"\)\)\]\s*$', ln2) and re.match(r"\s*let (mut )?%s\b" % re.escape(mlet.group(2)), near[q + 1]):
                                ok = True
                if not ok:
                    bad.append("%s:%d: %s" % (os.path.relpath(f, repo), i + 2, s[:80]))
    ctx.ob("CEN-CFG", "cfg-gated-statements", not bad, "%d statements/parameters gated on the tracing feature, all span bookkeeping or Debug bounds" % n if not bad else
           "cfg(feature = \"tracing\")-gated code that is not span bookkeeping: %s" % bad[:3])


def C20_post(ctx, models, tier):
    global BODYKEY
    md, mt = models["default"], models["tracing"]
    keys = {}
    BODYKEYS["default"], BODYKEYS["tracing"] = {}, {}
    for name, m in (("default", md), ("tracing", mt)):
        groups = {}
        for bid, b in m.prog.bodies.items():
            if b.tracing_prov or bid not in m.body_op:
                continue
            groups.setdefault(body_pair_key(m, bid), []).append(bid)
        for k0, bids in groups.items():
            # several closures may share one macro-definition span (combine's members): pair them in closure-index order
            bids.sort(key=lambda x: [int(n) for n in re.findall(r"closure#(\d+)", x)])
            for n, bid in enumerate(bids):
                k = k0 if len(bids) == 1 else "%s#%d" % (k0, n)
                BODYKEYS[name][bid] = k
                keys.setdefault(k, {}).setdefault(name, []).append(bid)
    ctx.config = "default+tracing"
    programs = 0
    disagreements = 0
    samples = []
    vd = {v.op.id: v for v in views(md)}
    vt = {v.op.id: v for v in views(mt)}
    for k, d in sorted(keys.items()):
        a, b = d.get("default", []), d.get("tracing", [])
        if len(a) != 1 or len(b) != 1:
            # helper fns without handlers are not in views; only operator bodies must pair
            opid = md.body_op.get(a[0]) if a else mt.body_op.get(b[0])
            if opid in vd or opid in vt:
                ctx.ob("EQV-cfg", "pairing:%s" % k, False, "body %s does not pair one-to-one across configurations (default %d, tracing %d)" % (k, len(a), len(b)))
            continue
        opid = md.body_op[a[0]]
        if opid not in vd or opid not in vt:
            continue
        v1, v2 = vd[opid], vt[opid]
        body = md.prog.bodies[a[0]]
        arms = VARIANTS if body.is_handler() else [None]
        for var in arms:
            programs += 1
            s1 = skeleton(v1, a[0], var)
            s2 = skeleton(v2, b[0], var)
            same = s1 == s2
            key = "%s:%s%s:EQV-cfg" % (v1.name if v1.family != "combine" else v1.name, v1.label(a[0]), ("." + VSHORT[var]) if var else "")
            if not same:
                disagreements += 1
                only1 = sorted(s1 - s2)[:1]
                only2 = sorted(s2 - s1)[:1]
                detail = "skeletons differ; only without tracing: %s | only with tracing: %s" % ([x[:160] for x in only1], [x[:160] for x in only2])
            else:
                detail = "%d visible-effect path(s), identical in both configurations" % len(s1)
            ctx.ob("EQV-cfg", key, same, detail, v1.loc(a[0]))
            if len(samples) < 6 and var in ("Data", "Handshake") and len(s1) >= 1:
                samples.append({"body": k, "arm": var, "paths": len(s1), "example_path": sorted(s1)[0][:200], "equal": same})
    # tau-purity of tracing-generated bodies
    impure = []
    n_tr = 0
    for bid, b in mt.prog.bodies.items():
        if not b.tracing_prov:
            continue
        n_tr += 1
        body_effects(mt.prog, b)
        for e in list(b.effects.values()) + list(b.stmt_effects.values()):
            if e.kind in ("send", "cell", "atomic", "usercall", "spawn", "iternext") or (e.kind == "pstore" and not e.tracing):
                impure.append("%s: %s at %s" % (bid, e.kind, e.loc))
    ctx.ob("EQV-cfg", "tracing-closures-are-tau", not impure, "%d closures generated by tracing's macros have no protocol effect" % n_tr if not impure else "; ".join(impure[:3]))
    cfg_census(ctx)
    cfg_gated_statements(ctx)
    ctx.ob("census-floor", "EQV-cfg:programs", programs >= 700, "%d paired (body, arm) programs compared" % programs)
    return {"programs": programs, "disagreements_checked": disagreements, "samples": samples or [{"note": "no paired bodies"}]}


@prop("C20", "translation_validation",
      "EQV-cfg: every body of every operator is paired across the two feature configurations (by operator and closure-expression "
      "span, because tracing's macros shift closure indices) and, per arm, the protocol skeleton - the set of paths projected on "
      "visible effects (sends with receiver class / variant / payload provenance, cell and atomic writes with orderings, calls of "
      "user closures with their arguments, thunk calls, spawn, sleep, iterator advance, explicit panics) and protocol branches - is "
      "compared for equality. Everything of tracing provenance is tau on both sides of every tracing-internal branch (regions "
      "dominated by a branch written inside tracing's macros are collapsed only if they contain no visible effect), so the result "
      "holds with or without a subscriber. 'Each message expression is evaluated exactly once' is the payload / user-call part of "
      "the skeleton. Closures generated by tracing's macros are shown to have no protocol effect; CEN-CFG: the only cfg predicate "
      "inside bodies or generic parameter lists is feature = \"tracing\" (source census), and every statement gated on it is span "
      "bookkeeping or a Debug bound. Assumed pure: Debug impls of user types (invoked by an enabled subscriber), Clone of N, span "
      "bookkeeping.",
      post=C20_post,
      assumptions=["Debug impls of user types and Clone of the nursery are pure", "tracing's own functions do not call back into callbag handlers"])
def C20(ctx, model, tier, models):
    census_operators(ctx, model)


# ============================================================================= witnesses (E3)

_WITNESS_CACHE = {}

def run_witnesses(ctx, wanted):
    """Run the compile-pass / compile_fail doc-test witnesses against the crate under analysis; one obligation per doc-test."""
    import subprocess, os
    repo = os.environ.get("CB_REPO", "/repo")
    here = os.path.dirname(os.path.abspath(__file__))
    if "out" not in _WITNESS_CACHE:
        r = subprocess.run([os.path.join(here, "..", "witness.sh"), repo], capture_output=True, text=True)
        _WITNESS_CACHE["out"] = r.stdout + r.stderr
        _WITNESS_CACHE["rc"] = r.returncode
    out = _WITNESS_CACHE["out"]
    saved = ctx.config
    ctx.config = "witness"
    found = {}
    for line in out.split("\n"):
        m = re.match(r"^test src/lib.rs - (W\d) \(line (\d+)\) - (compile fail|compile) \.\.\. (\w+)", line)
        if m:
            found.setdefault(m.group(1), []).append((int(m.group(2)), m.group(3), m.group(4)))
    for w in wanted:
        tests = sorted(found.get(w, []))
        fails = [t for t in tests if t[1] == "compile fail"]
        passes = [t for t in tests if t[1] == "compile"]
        ok = bool(fails) and bool(passes) and all(t[2] == "ok" for t in tests)
        for n, t in enumerate(tests):
            ctx.ob("witness", "%s:%s#%d" % (w, "compile_fail" if t[1] == "compile fail" else "twin", n), t[2] == "ok",
                   "doc-test witness %s (%s) %s" % (w, t[1], t[2]), "engines/witness/src/lib.rs:%d" % t[0])
        ctx.ob("witness", "%s:paired" % w, ok, "%s: %d compile_fail witness(es) with %d compiling twin(s)" % (w, len(fails), len(passes)) if tests else
               "%s: witness doc-tests did not run: %s" % (w, out[-300:]))
    ctx.config = saved


def witness_post(names):
    def post(ctx, models, tier):
        if tier == "thorough":
            run_witnesses(ctx, names)
        return {}
    return post

for _pid, _ws in (("C05", ["W5"]), ("C13", ["W2", "W3"]), ("C17", ["W1"]), ("C18", ["W3"]), ("C10", ["W6"])):
    REGISTRY[_pid]["post"] = witness_post(_ws)


# ============================================================================= C06

def for_each_lemmas(ctx, v):
    h = v.by_role("UP")[0]
    tb = v.talkback_cells()
    # H: store talkback, then exactly one pull
    probs = []
    for p in returning(v.arm(h, "Handshake")):
        sig = send_sig(v, h, "Handshake", p)
        st = [i for i, e in ev_effects(p) if e.kind == "cell" and e.op == "store" and e.value[0] == "agg" and e.value[2] == "Option::Some"]
        if [(s[0], s[1]) for s in sig] != [("UPTB", "Pull")] or not st or st[0] > sig[0][4]:
            probs.append("greeting arm is not: store talkback; pull once")
    ctx.ob("REL-1:1", v.key(h, "Handshake", "REL-1:1", "store-then-pull"), not probs, "on greeting the talkback is stored and pulled exactly once" if not probs else probs[0], v.loc(h))
    # D: f(data) once, by move, then exactly one pull
    probs = []
    for p in returning(v.arm(h, "Data")):
        sig = send_sig(v, h, "Data", p)
        ucs = [(i, e) for i, e in ev_effects(p) if e.kind == "usercall"]
        if len(ucs) != 1 or ucs[0][1].args != [incoming_payload(h, "Data")] or not is_factory_param(v, strip_clone(ucs[0][1].fn)):
            probs.append("f is not called exactly once on the incoming datum")
            continue
        if not sig and tb_none_decided(v, p):
            continue        # the talkback cell was seen empty: dead while Data is arriving (stored at the greeting, ORD-store-pub)
        if [(s[0], s[1]) for s in sig] != [("UPTB", "Pull")] or sig[0][4] < ucs[0][0]:
            probs.append("the next item is not requested exactly once, after f returned")
    ctx.ob("REL-1:1", v.key(h, "Data", "REL-1:1", "consume-then-pull"), not probs, "each datum: f(d) once, then exactly one Pull" if not probs else probs[0], v.loc(h))
    lemma_rel_silent(ctx, v, h, "Error")
    lemma_rel_silent(ctx, v, h, "Terminate")


def C06_post(ctx, models, tier):
    run_witnesses(ctx, ["W4"])
    return {}


@prop("C06", "other",
      "This property quantifies over programs and input values; no static argument in reach decides 'the received list equals f(xs)' "
      "as such. Decided are the clauses that are shapes of the code, in both configurations: (a) pipe! is left-to-right application - "
      "compile_fail witness W4 with compiling twins (2-, 3-, 4-stage and trailing-comma forms compile only in the right order), run "
      "against the current tree in both tiers; (b) each stage's per-datum transfer function is the list function's step - the C07 "
      "lemmas for map, filter, scan, take, skip, the C09 lemmas for concat (append) and the C11 lemmas for flatten; (c) the driver "
      "for_each: on greeting store and pull once; per datum exactly one f(d) on the incoming datum and then exactly one Pull; Error / "
      "Terminate arms silent; (d) demand is conserved by every stage (C14 lemmas) and served by from_iter with one iterator advance "
      "and one send per recorded pull, never advancing without a pull (C15 lemmas), take dropping pulls once taken == max. The "
      "per-stage results compose by assume/guarantee (each stage's lemmas are relative to A1-A7 for its upstream and establish them "
      "for its output); the element-wise equality is the usual induction on the input, written in DESIGN.md, NOT mechanised: the "
      "check decides necessary structural conditions and the composition argument, not the list equality.",
      post=C06_post,
      axioms=["A1", "A2", "A3", "A5", "A6", "A7"])
def C06(ctx, model, tier, models):
    census_operators(ctx, model)
    seen = set()
    for v in views(model):
        f = v.family
        if f in ("map", "filter", "scan", "take", "skip"):
            transfer_lemmas(ctx, v)
            demand_lemmas(ctx, v)
            seen.add(f)
        elif f == "concat":
            concat_lemmas(ctx, v)
            seen.add(f)
        elif f == "flatten":
            flatten_lemmas(ctx, v, hygiene=False)   # the stale-cell window (KF-4) is reported under C04 / C11
            seen.add(f)
        elif f == "from_iter":
            from_iter_lemmas(ctx, v)
            seen.add(f)
        elif f == "for_each":
            for_each_lemmas(ctx, v)
            demand_lemmas(ctx, v)
            seen.add(f)
    ctx.ob("CEN-H", "pipeline-stages", seen == {"map", "filter", "scan", "take", "skip", "concat", "flatten", "from_iter", "for_each"}, "stages analysed: %s" % sorted(seen))
    ctx.floor("REL-1:1", 20)


# ============================================================================= EQV-sibling (thorough tier cross-check)

def sibling_signature(v, bid, var):
    """Abstract shape of an arm: per path the sequence of (effect kind, receiver class, variant, payload kind / op)."""
    out = set()
    for p in v.arm(bid, var):
        toks = []
        for ev in p.events:
            if ev[0] == "eff":
                e = ev[1]
                if e.tracing or not effect_visible(v.P, e):
                    continue
                if e.kind == "send":
                    toks.append(("send", v.cls_of(e)[0], e.variant, payload_kind(v, bid, var, e.payload)))
                elif e.kind == "atomic":
                    toks.append(("atomic", e.op))
                elif e.kind == "cell":
                    toks.append(("cell", e.op))
                elif e.kind == "panic":
                    if not e.pk.startswith("assert"):
                        toks.append(("panic", e.pk))
                else:
                    toks.append((e.kind,))
            elif ev[0] == "br":
                a = norm_pred(ev[1], ev[2])
                toks.append(("br", a[0], a[3] if a[0] == "cmp" else a[2]))
        out.add((tuple(toks), p.end))
    return out


def eqv_sibling(ctx, model):
    vs = {v.family: v for v in views(model) if v.cls == "unary"}
    groups = [
        ("DOWN", [("map", "scan"), ("filter", "skip")], VARIANTS),
        ("UP", [("map", "filter"), ("map", "scan"), ("map", "skip"), ("map", "take")], ["Error", "Terminate", "Pull"]),
    ]
    for role, pairs, arms in groups:
        for a, b in pairs:
            if a not in vs or b not in vs:
                continue
            va, vb = vs[a], vs[b]
            ha, hb = va.by_role(role)[0], vb.by_role(role)[0]
            for var in arms:
                same = sibling_signature(va, ha, var) == sibling_signature(vb, hb, var)
                ctx.ob("EQV-sibling", "%s~%s:%s.%s:EQV-sibling" % (a, b, role, VSHORT[var]), same,
                       "%s and %s agree on their %s.%s arm" % (a, b, role, VSHORT[var]) if same else
                       "%s and %s implement the same relay differently in %s.%s" % (a, b, role, VSHORT[var]), va.loc(ha))


_c07_fn = REGISTRY["C07"]["fn"]
def _C07_with_siblings(ctx, model, tier, models):
    _c07_fn(ctx, model, tier, models)
    if tier == "thorough":
        eqv_sibling(ctx, model)
REGISTRY["C07"]["fn"] = _C07_with_siblings

_c04_fn = REGISTRY["C04"]["fn"]
def _C04_with_siblings(ctx, model, tier, models):
    _c04_fn(ctx, model, tier, models)
    if tier == "thorough":
        eqv_sibling(ctx, model)
REGISTRY["C04"]["fn"] = _C04_with_siblings


# ============================================================================= additions after the first round of seeded changes

def _merge_over_flag(ctx, v):
    """The over-flag that the subscribe loop and the late-greeter arm consult is raised, before anything is sent,
    by the talkback on Error and on Terminate and by a member's Error arm."""
    r = v.root
    flag = set()
    for p in v.arm(r, "Handshake"):
        for (_, a, _) in guards_before(p, len(p.events)):
            if a[0] == "bool" and flag_observation(a[1]) is not None:
                flag.add(flag_observation(a[1]))
    probs = []
    if len(flag) != 1:
        probs.append("the subscribe loop consults %d flags" % len(flag))
    else:
        fk = list(flag)[0]
        places = [(d, var) for d in v.by_role("DOWN") for var in ("Error", "Terminate")] + [(h, "Error") for h in v.by_role("UP")]
        for (b, var) in places:
            for p in complete(v.arm(b, var)):
                st = [i for i, e in ev_effects(p) if raises_flag(e) and cell_key(e.cell) == fk]
                sn = [i for i, e in ev_effects(p) if e.kind == "send"]
                if not st or (sn and st[0] > sn[0]):
                    probs.append("%s.%s does not raise the over-flag before its first send" % (v.label(b), VSHORT[var]))
    ctx.ob("ORD-flag-relay", "%s:ORD-flag-relay:over-flag-raised-on-every-end" % v.name, not probs,
           "the over-flag is raised first on sink Error, sink Terminate and member Error" if not probs else "; ".join(sorted(set(probs))[:3]), v.loc(r))


def _combine_nonh_guards(ctx, v):
    """C01 (b) for combine: Data to the sink only behind n_data == 0 and Terminate only behind the once-guard on n_end, both counters
    starting at N = number of members and decremented at most once per member - so every member has greeted before."""
    N = len(v.by_role("UP"))
    for h in v.by_role("UP"):
        probs = []
        for var in ("Data", "Error", "Terminate"):
            for p in v.arm(h, var):
                for s in send_sig(v, h, var, p):
                    if s[0] != "SINK":
                        continue
                    if s[1] == "Data":
                        dec = []
                        for (i, a, ev) in guards_before(p, s[4]):
                            czd = counter_zero_decision(a)
                            if czd is not None and czd[0]:
                                dec.append(czd[1])
                        if not dec:
                            probs.append("Data is sent without n_data == 0")
                        else:
                            ck = dec[0][0][1]
                            ws = cell_writes(v, ck[0])
                            if cell_init(v, ck[0]) != N or not all(e.kind == "atomic" and e.op == "fetch_sub" and e.operand[3] == 1 for e, _ in ws):
                                probs.append("n_data does not count down from N by unit steps")
                    elif s[1] in ("Terminate", "Error"):
                        g = grd_once(v, p, s[4])
                        if not (g and g["step"] == -1 and g["init"] == N and g["post_offset"] == 0 and g["bound"] is None and g["uniform"]):
                            probs.append("%s is sent without the once-guard post(n_end) == 0 on a counter from N" % s[1])
                        elif len({(e.site) for e, b in cell_writes(v, g["cell"][0])}) != 0:
                            # every decrement site lies in a member's Error/Terminate arm (one end per member, A2)
                            for e, b in cell_writes(v, g["cell"][0]):
                                if not (v.op.roles.get(b) == "UP" and set(site_arms(v, b, e)) <= {"Error", "Terminate"}):
                                    probs.append("the end counter is written outside the members' end arms")
        ctx.ob("GRD-once", v.key(h, None, "GRD-once", "nothing-before-all-greeted"), not probs,
               "data needs every member's first value and completion every member's end: both imply every member greeted" if not probs else "; ".join(sorted(set(probs))[:3]), v.loc(h))


def _merge_nonh_guards(ctx, v):
    """C01 (b) for merge: Terminate to the sink only behind post(end_count) == n, the counter being incremented only in member T arms."""
    for h in v.by_role("UP"):
        probs = []
        for p in v.arm(h, "Terminate"):
            for s in path_terminals(v, h, "Terminate", p):
                g = grd_once(v, p, s[4])
                if not (g and g["step"] == 1 and g["init"] == 0 and g["post_offset"] == 0 and g["bound"] is not None and _is_member_count(v, g["bound"]) and g["uniform"]):
                    probs.append("completion not behind post(end_count) == n")
                else:
                    for e, b in cell_writes(v, g["cell"][0]):
                        if not (v.op.roles.get(b) == "UP" and site_arms(v, b, e) == ["Terminate"]):
                            probs.append("end_count is written outside the members' Terminate arms")
        ctx.ob("GRD-once", v.key(h, "Terminate", "GRD-once", "completion-implies-all-greeted"), not probs,
               "completion needs n member completions, each after that member's greeting (A1)" if not probs else "; ".join(sorted(set(probs))), v.loc(h))


def _wrap(pid, extra):
    base = REGISTRY[pid]["fn"]
    def fn(ctx, model, tier, models):
        base(ctx, model, tier, models)
        for v in views(model):
            extra(ctx, v)
    REGISTRY[pid]["fn"] = fn

_wrap("C01", lambda ctx, v: (_combine_nonh_guards(ctx, v) if v.family == "combine" else (_merge_nonh_guards(ctx, v) if v.family == "merge" else None)))
_wrap("C04", lambda ctx, v: _merge_over_flag(ctx, v) if v.family == "merge" else None)
_wrap("C08", lambda ctx, v: _merge_over_flag(ctx, v) if v.family == "merge" else None)
_wrap("C03", lambda ctx, v: _merge_over_flag(ctx, v) if v.family == "merge" else None)


# ============================================================================= additions after the second round of seeded changes

def lemma_state_per_subscription(ctx, v):
    """SCP-sub (as a premise of every once/flag/order argument): all cells of the operator are allocated per subscription
    (share excepted; for_each: per application)."""
    if v.family == "share":
        return
    scope = {"C08": ("merge",), "C09": ("concat",), "C10": ("combine",), "C11": ("flatten",), "C15": ("from_iter",), "C16": ("interval",),
             "C19": ("take",), "C18": ("merge", "combine"), "C07": ("map", "filter", "scan", "take", "skip"),
             "C14": ("from_iter", "map", "filter", "scan", "take", "skip", "concat", "flatten")}.get(ctx.prop)
    if scope is not None and v.family not in scope:
        return
    okscopes = ("SUBSCRIPTION", "DELIVERY") + (("APPLICATION",) if v.cls == "sink" else ())
    bad = sorted(str(c.name) for c in v.op.cells.values() if c.scope not in okscopes)
    ctx.ob("SCP-sub", "%s:SCP-sub:state-per-subscription" % v.name, not bad,
           "all %d cells are allocated per subscription" % len(v.op.cells) if not bad else "state shared between subscriptions: %s" % bad, v.loc(v.op.id))
    # INIT: every flag starts lowered, every talkback / value cell starts empty (each flag means "something has happened":
    # a pull was recorded, the loop is running, the output is over, the iterator is exhausted, the task was cancelled)
    badinit = []
    n = 0
    for k, c in v.op.cells.items():
        a = c.alloc
        if a[0] != "call":
            continue
        if "Atomic::<bool>::new" in a[2] or a[2].endswith("AtomicBool::new"):
            n += 1
            if not (a[3] and a[3][0][0] == "const" and a[3][0][3] == 0):
                badinit.append("%s starts raised" % c.name)
        elif a[2] == "std::convert::From::from" and a[3]:
            n += 1
            if not (a[3][0][0] == "agg" and a[3][0][2] == "Option::None"):
                badinit.append("%s does not start empty" % c.name)
    ctx.ob("INIT-flag", "%s:INIT-flag" % v.name, not badinit, "all %d flags start lowered and all option cells start empty" % n if not badinit else "; ".join(badinit), v.loc(v.op.id))


def lemma_store_every_greeting(ctx, v):
    """ORD-store-pub (every greeting): a talkback cell that the sink-facing talkback reads is stored with the new upstream talkback on
    every returning path of the storing handler's Handshake arm - except a path that disposes that very upstream at once."""
    scope = {"C08": ("merge",), "C09": ("concat",), "C11": ("flatten",)}.get(ctx.prop)
    if scope is not None and v.family not in scope:
        return
    tb = v.talkback_cells()
    down_reads = set()
    for d in v.by_role("DOWN"):
        for e in v.all_effects(d):
            if e.kind == "cell" and e.op in ("load", "load_full"):
                down_reads.add(base_key(e.cell))
    for k, members in sorted(tb.items(), key=lambda kv: str(kv[0])):
        if k not in down_reads:
            continue
        for h in sorted({h for h, _ in members}):
            probs = []
            for p in returning(v.arm(h, "Handshake")):
                st = [e for i, e in ev_effects(p) if e.kind == "cell" and e.op == "store" and base_key(e.cell) == k and e.value[0] == "agg" and e.value[2] == "Option::Some"
                      and v.m.hs_payload_of(e.value) == [h]]
                disposed = [s for s in send_sig(v, h, "Handshake", p) if s[0] == "UPTB" and s[1] in ("Terminate", "Error") and s[5][1] == ("direct", h)]
                if not st and not disposed:
                    probs.append("a path of the Handshake arm does not record the new upstream talkback")
            ctx.ob("ORD-store-pub", v.key(h, "Handshake", "ORD-store-pub", "every-greeting-recorded"), not probs,
                   "every greeting of this upstream is recorded in the cell the talkback reads (or the upstream is disposed at once)" if not probs else probs[0], v.loc(h))


def lemma_flatten_inner_indicator(ctx, v):
    """flatten: the outer's completion test reads the inner cell as 'an inner is active'. At the moment the outer's Data arm
    subscribes a new inner the cell must not be empty, or an inner that greets late is invisible to that test.
    Two instances: the switch (a previous inner was active) and the first subscription (none was)."""
    uo = v.by_role("UP")[0]
    ui = v.by_role("UP_INNER")[0]
    tb = v.talkback_cells()
    inner_k = [k for k, l in tb.items() if any(h == ui for h, _ in l)]
    res = {"switch": [], "first": []}
    seen = {"switch": 0, "first": 0}
    for p in returning(v.arm(uo, "Data")):
        sig = send_sig(v, uo, "Data", p)
        subs = [s for s in sig if s[0] == "UPSRC_INNER" and s[1] == "Handshake"]
        if not subs:
            continue
        dec = [a for (_, a, _) in guards_before(p, subs[0][4]) if a[0] in ("discr", "opt") and a[1][0] == "cellload" and base_key(a[1][1]) in inner_k]
        was_some = None
        if dec:
            was_some = (dec[0][2] == 1) if dec[0][0] == "discr" else (dec[0][2] == "some")
        writes = [e for i, e in ev_effects(p) if i < subs[0][4] and e.kind == "cell" and e.op == "store" and base_key(e.cell) in inner_k]
        state = was_some
        for e in writes:
            state = not (e.value[0] == "agg" and e.value[2] == "Option::None")
        # a pending marker (a flag raised before subscribing) would also do
        flagged = [e for i, e in ev_effects(p) if i < subs[0][4] and raises_flag(e)]
        kind = "switch" if was_some else "first"
        seen[kind] += 1
        if not state and not flagged:
            res[kind].append("the inner cell is empty while the new inner is being subscribed")
    ctx.ob("ORD-pending-inner", "flatten:UP.D:ORD:inner-marked-active-at-subscribe:switch", not res["switch"] and seen["switch"] > 0,
           "across a switch the cell never reads 'no inner' while the new inner is pending" if not res["switch"] else res["switch"][0], v.loc(uo))
    ctx.ob("ORD-pending-inner", "flatten:UP.D:ORD:inner-marked-active-at-subscribe:first", not res["first"] and seen["first"] > 0,
           "the first inner is marked active before it is subscribed" if not res["first"] else
           "the first inner is subscribed while the cell still reads 'no inner': if it greets late and the outer completes first, the output completes early and the inner's data follows the Terminate",
           v.loc(uo))


for _pid in ("C01", "C02", "C03", "C04", "C05", "C08", "C09", "C10", "C11", "C14", "C15", "C16", "C17", "C18", "C19"):
    _wrap(_pid, lemma_state_per_subscription)
for _pid in ("C03", "C04", "C09", "C14", "C11", "C08"):
    _wrap(_pid, lemma_store_every_greeting)
for _pid in ("C02", "C04", "C05", "C11"):
    # C05: an output that completes while an inner it has subscribed is still alive cannot deliver that inner's later failure
    # C04: that inner outlives the output undisposed, and when it ends flatten pulls the outer source that ended long ago
    _wrap(_pid, lambda ctx, v: lemma_flatten_inner_indicator(ctx, v) if v.family == "flatten" else None)
# C04 (round 9, T05b): "each upstream is subscribed at most once" rests, for share, on the append being exact - a closure that can
# leave the list at length 1 for a second subscription makes share subscribe its upstream again and orphan the first subscription
_wrap("C04", lambda ctx, v: _share_append_lemma(ctx, v) if v.family == "share" else None)
def _take_flag_arms(ctx, v):
    if v.family == "take":
        d = v.by_role("DOWN")[0]
        for var in ("Error", "Terminate"):
            _ord_flag_first(ctx, v, d, var, "end-before-relay")
for _pid in ("C04", "C07", "C02"):
    _wrap(_pid, _take_flag_arms)


# ============================================================================= explanation addenda (lemmas added after the seeded rounds)

_ADD = {
 "C01": " Added after the seeded rounds: combine's Data / completion and merge's completion to the sink are behind counters whose reaching the bound implies that every member greeted (GRD-once:nothing-before-all-greeted); all state cells are per subscription (SCP-sub premise).",
 "C02": " Added after the seeded rounds: take's end flag is raised first by both disposal arms; flatten's inner cell must not read 'no inner' while a new inner is being subscribed (ORD:inner-marked-active-at-subscribe) - its first-subscription instance fails on this tree: recorded finding KF-10 (a first, late-greeting inner is invisible to the outer's completion test).",
 "C03": " Added after the seeded rounds: merge's over-flag is raised first on sink Error, sink Terminate and member Error; every greeting of an upstream is recorded in the cell the talkback reads; all state cells are per subscription.",
 "C04": " Added after the seeded rounds: over-flag writers (merge), end-flag arms (take), every-greeting-recorded (ORD-store-pub), state-per-subscription premise. Rounds 5-7: share's sink list is not emptied while the terminal fan-out is still serving sinks unless the talkback's upstream Terminate is tied to having removed its own sink (ORD-clear-emit:list-not-empty-during-terminal-fanout); a relay skipped because the talkback cell was seen empty is accepted only where every clear of that cell is legitimate (tb_clears_legit). Round 9: flatten's ORD-pending-inner also runs here (an inner subscribed while the cell reads 'no inner' outlives an output that completes meanwhile, undisposed, and the ended outer is pulled when it ends; the first-subscription instance is the recorded finding KF-10) and so does share's append-closure lemma (GRD-len:subscribe-on-0-to-1: 'subscribed at most once' rests on the rcu closure appending exactly this sink).",
 "C05": " Added after the seeded rounds: share's Error arm must evaluate the fan-out loop on every path, unconditionally. Round 6: flatten must not complete while an inner it has subscribed is alive (ORD-pending-inner; the first-subscription instance is KF-10, recorded here too).",
 "C07": " Added after the seeded rounds: every cell of the five operators is per subscription; take's talkback raises the end flag first in both disposal arms. Paths that find the output already over and do nothing are not counted. Rounds 5-6: the claim may also be a hand-written compare_exchange loop (cas-claim clauses) or a fetch_update on a counter of remaining slots (count-down dual).",
 "C09": " Added after the seeded rounds: every member greeting records its talkback in the cell the sink-facing talkback reads (ORD-store-pub:every-greeting-recorded).",
 "C11": " Added after the seeded rounds: Pull routing must consult the inner cell first and may drop a Pull only when both cells were seen empty; ORD:inner-marked-active-at-subscribe (switch instance holds; first-subscription instance is the recorded finding KF-10). Round 5: the sink's Error / Terminate reaches both levels (REL-bcast:disposal-reaches-both-levels).",
 "C15": " Added after the seeded rounds: all six cells are per subscription (SCP-sub premise).",
 "C17": " Added after the seeded rounds: the counters the K-count / K-arith discharges rely on are per subscription (SCP-sub premise).",
}
for _k, _t in _ADD.items():
    REGISTRY[_k]["explanation"] += _t


# ============================================================================= additions after the third (analysis-aware) round

def lemma_member_order(ctx, v):
    """merge / concat: the collection the subscribe site indexes IS the factory's member parameter, converted element-wise and in
    order (only order-preserving adaptors between the parameter and the indexed collection; the mapping closure is `s.into()`)."""
    if v.family not in ("merge", "concat"):
        return
    if (ctx.prop == "C08" and v.family != "merge") or (ctx.prop in ("C09", "C06", "C14") and v.family != "concat"):
        return
    probs = []
    n = 0
    for e, b in subscribe_sends(v):
        n += 1
        r = e.recv
        if r[0] != "index":
            probs.append("the subscribed member is not an element of the member collection")
            continue
        base = r[1]
        while base[0] == "field":
            base = base[1]
        if base != ("param", v.op.id, 1):
            probs.append("the indexed collection is not the factory's member list converted in place (it is %s)" % show(base)[:80])
    # the closures handed to the order-preserving adaptors are plain conversions of their argument
    for b in v.op.bodies:
        body = v.P.bodies[b]
        if body.parent == v.op.id and not body.is_handler() and body.kind == "closure" and v.op.roles.get(b) in ("APPLICATION", "HELPER", "THUNK"):
            used_by_map = any(e.kind == "alias" and b in (e.get("closures") or []) for e in v.all_effects(v.op.id))
            if used_by_map:
                r = v.P.link(body.origin_local(0))
                if r != ("param", b, 2):
                    probs.append("the element conversion closure is not `s.into()`")
    ctx.ob("REL-member-order", "%s:REL-member-order" % v.name, not probs and n >= 1,
           "members are subscribed from the factory's list, converted element-wise, in the order given" if not probs else "; ".join(sorted(set(probs))[:3]), v.loc(v.op.id))

for _pid in ("C04", "C06", "C08", "C09", "C14"):
    _wrap(_pid, lemma_member_order)


# ============================================================================= macro-expansion probe (exported macro_rules! bodies)

def probe_facts():
    """Facts of the probe crate (engines/probe) built against the repo under analysis; cached by tree hash."""
    import os, subprocess, hashlib
    import run as _run
    repo = os.environ.get("CB_REPO", "/repo")
    th = _run.tree_hash(repo)
    h = hashlib.sha256(open(os.path.join(_run.VERIF, "engines", "probe", "src", "lib.rs"), "rb").read()).hexdigest()[:8]
    out = os.path.join(_run.WORK, "facts", "%s-probe-%s.json" % (th[:24], h))
    if not os.path.exists(out):
        os.makedirs(os.path.dirname(out), exist_ok=True)
        import fcntl
        with open(os.path.join(_run.WORK, "extract-default.lock"), "w") as lf:
            fcntl.flock(lf, fcntl.LOCK_EX)
            if not os.path.exists(out):
                r = subprocess.run([os.path.join(_run.VERIF, "engines", "probe.sh"), repo, out + ".new"], capture_output=True, text=True)
                if r.returncode != 0 or not os.path.exists(out + ".new"):
                    return None, (r.stdout + r.stderr)[-400:]
                os.rename(out + ".new", out)
            fcntl.flock(lf, fcntl.LOCK_UN)
    return Program(out), None


def probe_lemmas(ctx, which):
    """How the arguments of the exported macros flow into the library's entry points, decided on the MIR of a use site."""
    saved = ctx.config
    ctx.config = "probe"
    P, err = probe_facts()
    if P is None:
        ctx.ob("MACRO-probe", "probe:extracted", False, "the macro-expansion probe crate could not be analysed: %s" % err)
        ctx.config = saved
        return
    def params_in_order(ops, n):
        return len(ops) == n and all(op[0] == "param" and op[2] == i + 1 for i, op in enumerate(ops))
    for name in which:
        bid = "probe_" + name
        b = P.bodies.get(bid)
        if b is None:
            ctx.ob("MACRO-probe", "probe:%s:present" % name, False, "probe function missing")
            continue
        body_effects(P, b)
        calls = [e for e in b.effects.values()]
        if name in ("concat", "merge"):
            entry = [e for e in calls if e.get("callee") == "callbag::%s" % name]
            arrays = [se for se in b.stmt_effects.values() if se.kind == "pstore" and isinstance(se.value, tuple) and se.value[0] == "agg" and se.value[1] == "array"]
            # nothing but the vec! plumbing and the entry point may be called (anything else could permute or replace members)
            okc = ("std::boxed::", "alloc::", "std::vec::Vec::<T, A>::into_boxed_slice", "std::slice::<impl [T]>::into_vec", "alloc::slice::<impl [T]>::into_vec",
                   "core::slice::<impl [T]>::into_vec", "callbag::%s" % name)
            hof = [e for e in calls if e.kind != "panic" and not (e.get("callee") or "?").startswith(okc)]
            ok = len(entry) == 1 and len(arrays) == 1 and params_in_order(arrays[0].value[3], 3) and not hof
            ctx.ob("MACRO-probe", "probe:%s!:members-in-order" % name, ok,
                   "%s!(a, b, c) hands [a, b, c], in this order, to %s()" % (name, name) if ok else
                   "%s!(a, b, c) does not hand exactly [a, b, c] to %s() (arrays: %s, entry calls: %d)" % (name, name, [show(a.value) for a in arrays], len(entry)), loc_of(b.span))
        elif name == "combine":
            entry = [e for e in calls if e.get("callee") == "callbag::combine"]
            ok = len(entry) == 1 and entry[0].args and entry[0].args[0][0] == "agg" and entry[0].args[0][1] == "tuple" and params_in_order(entry[0].args[0][3], 3)
            ctx.ob("MACRO-probe", "probe:combine!:members-in-order", ok, "combine!(a, b, c) calls combine((a, b, c))" if ok else "combine!(a, b, c) does not call combine((a, b, c))", loc_of(b.span))
        elif name in ("pipe", "pipe2"):
            n = 3 if name == "pipe" else 1
            # nested application: stage k is called on the result of stage k-1, the first on x
            seq = []
            cur = 0
            blk = b.blocks[cur]
            probs = []
            prev = ("param", bid, 1)
            for k in range(n):
                t = blk["term"]
                if t["k"] != "call" or "indirect" not in t["callee"]:
                    probs.append("stage %d is not a call of the stage function" % (k + 1))
                    break
                fn = P.link(b.operand_expr(t["callee"]["indirect"]))
                arg = P.link(b.operand_expr(t["args"][0])) if t["args"] else None
                if fn != ("param", bid, k + 2):
                    probs.append("call %d applies %s, expected stage %d" % (k + 1, show(fn), k + 1))
                if k == 0 and arg != ("param", bid, 1):
                    probs.append("the first stage is not applied to the piped value")
                if k > 0 and not (arg is not None and arg[0] == "call" and arg[1][1] == prev_bb):
                    probs.append("stage %d is not applied to the result of stage %d" % (k + 1, k))
                prev_bb = cur
                if not t["succ"]:
                    break
                cur = t["succ"][0]
                blk = b.blocks[cur]
            if blk["term"]["k"] != "return":
                probs.append("more calls than stages")
            ctx.ob("MACRO-probe", "probe:pipe!:%d-stages-left-to-right" % n, not probs,
                   "pipe!(x, s1..s%d) is s%d(..s1(x))" % (n, n) if not probs else "; ".join(probs), loc_of(b.span))
    ctx.config = saved


def _post_chain(pid, extra_post):
    old = REGISTRY[pid].get("post")
    def post(ctx, models, tier):
        r = old(ctx, models, tier) if old else {}
        extra_post(ctx, models, tier)
        return r or {}
    REGISTRY[pid]["post"] = post

_post_chain("C06", lambda ctx, models, tier: probe_lemmas(ctx, ["pipe", "pipe2", "concat"]))
_post_chain("C08", lambda ctx, models, tier: probe_lemmas(ctx, ["merge"]))
_post_chain("C09", lambda ctx, models, tier: probe_lemmas(ctx, ["concat"]))
_post_chain("C10", lambda ctx, models, tier: probe_lemmas(ctx, ["combine"]))

_wrap("C04", lambda ctx, v: _share_detach_closures(ctx, v) if v.family == "share" else None)
_wrap("C03", lambda ctx, v: _share_detach_closures(ctx, v) if v.family == "share" else None)


# ============================================================================= additions after the fourth round

def lemma_no_snapshot_capture(ctx, v):
    """CEN-snapshot: no handler / thunk / task closure captures, by value, something that was read from a cell or an atomic when
    the closure was built (a stale snapshot of mutable state would then decide instead of the state itself)."""
    bad = []
    n = 0
    scope = {"C08": ("merge",), "C09": ("concat",), "C10": ("combine",), "C11": ("flatten",), "C12": ("share",), "C15": ("from_iter",), "C16": ("interval",),
             "C19": ("take",), "C14": ("from_iter", "map", "filter", "scan", "take", "skip", "concat", "flatten")}.get(ctx.prop)
    if scope is not None and v.family not in scope:
        return
    for b in v.op.bodies:
        body = v.P.bodies[b]
        if body.kind not in ("closure", "coroutine") or body.tracing_prov:
            continue
        # only closures that outlive the statement that builds them: message handlers, tasks, stored thunks
        # (a closure handed to rcu / position / fetch_update runs at once, on the value it was built from)
        if not (body.is_handler() or body.kind == "coroutine" or v.op.roles.get(b) in ("UP", "DOWN", "UP_INNER", "TASK")):
            continue
        sites = v.P.closure_sites.get(b, [])
        if len(sites) != 1:
            continue
        pb, bb, i, ops = sites[0]
        parent = v.P.bodies[pb]
        for k, o in enumerate(ops):
            n += 1
            e = v.P.link(parent.operand_expr(o))
            snap = [x for x in walk(e) if x[0] in ("aload", "cellload", "rmw")]
            # a talkback just taken out of a Some-guarded load and moved into a send is not a capture; here we only see captures
            if snap:
                name = body.captures[k]["name"] if k < len(body.captures) else "capture %d" % k
                bad.append("%s captures `%s`, a value read from %s when the closure was built" % (v.label(b), name, v.cellname(snap[0][1])))
    ctx.ob("CEN-snapshot", "%s:CEN-snapshot" % v.name, not bad, "no closure captures a snapshot of mutable state (%d captures)" % n if not bad else "; ".join(sorted(set(bad))[:3]), v.loc(v.op.id))


def lemma_fanin_guard_implies_greeting(ctx, v):
    """merge / combine UP.H: on every returning path on which the once-guard's equality holds, the greeting is sent."""
    if v.family not in ("merge", "combine"):
        return
    if (ctx.prop == "C08" and v.family != "merge") or (ctx.prop == "C10" and v.family != "combine"):
        return
    for h in v.by_role("UP"):
        probs = []
        for p in returning(v.arm(h, "Handshake")):
            eq = [a for (_, a, _) in guards_before(p, len(p.events)) if a[0] == "cmp" and a[3] == "==" and counter_term(a[1]) and counter_term(a[1])[0] == "pre"]
            greets = [s for s in send_sig(v, h, "Handshake", p) if s[1] == "Handshake" and s[0] == "SINK"]
            if eq and len(greets) != 1:
                probs.append("the member that wins the once-guard does not greet the sink on every path")
        ctx.ob("REL-1:1", v.key(h, "Handshake", "REL-1:1", "guard-implies-greeting"), not probs, "winning the once-guard always leads to exactly one greeting" if not probs else probs[0], v.loc(h))


def lemma_operator_panic_census(ctx, v):
    """The C17 census restricted to one operator (used by the operator-specific properties: a new panic site in that operator
    also breaks what the property says the operator does)."""
    scope = {"C08": ("merge",), "C09": ("concat",), "C10": ("combine",), "C11": ("flatten",), "C12": ("share",), "C15": ("from_iter",), "C16": ("interval",), "C19": ("take",)}.get(ctx.prop)
    if scope is None or v.family not in scope:
        return
    tbcells = v.talkback_cells()
    per_site = {}
    for (b, var, p, i, e, hint) in panic_sites(v):
        cls, ok, why = discharge_panic(v, b, var, p, i, e, hint, tbcells)
        k = (b, e.site, hint)
        cur = per_site.get(k)
        if cur is None or (cur[1] and not ok):
            per_site[k] = (cls, ok, why, e)
    bad = []
    for (b, site, hint), (cls, ok, why, e) in per_site.items():
        if not ok and not (v.family == "share" and cls == "K-init" and v.op.roles.get(b) == "DOWN"):   # KF-6 is C17's finding
            bad.append("%s at %s: %s" % (hint, e.loc, why))
    ctx.ob("CEN-P", "%s:CEN-P:operator" % v.name, not bad, "%d panic-capable sites of the operator are discharged" % len(per_site) if not bad else "; ".join(sorted(bad)[:3]), v.loc(v.op.id))


for _pid in ("C01", "C02", "C03", "C04", "C05", "C08", "C09", "C10", "C11", "C12", "C14", "C15", "C16", "C19"):
    _wrap(_pid, lemma_no_snapshot_capture)
for _pid in ("C01", "C08", "C10", "C18"):
    _wrap(_pid, lemma_fanin_guard_implies_greeting)
for _pid in ("C08", "C09", "C10", "C11", "C12", "C15", "C16", "C19"):
    _wrap(_pid, lemma_operator_panic_census)
