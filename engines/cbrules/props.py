"""props: the property modules C01..C20 (DESIGN.md section 6). Each function instantiates lemma
templates on the model of one feature configuration and records obligations in the Ctx."""
from opview import *

REGISTRY = {}

def prop(pid, level, explanation, **kw):
    def deco(fn):
        d = {"fn": fn, "level": level, "explanation": explanation}
        d.update(kw)
        REGISTRY[pid] = d
        return fn
    return deco


# ============================================================================= shared lemma instances

def payload_kind(v, bid, variant, payload):
    """Describe a payload relative to the arm it is sent from."""
    if payload is None:
        return "none"
    if variant and payload == incoming_payload(bid, variant):
        return "in"
    if payload == ("param", bid, 2):
        return "msg"
    if payload[0] == "agg" and payload[1] == "closure":
        return "closure:%s" % v.op.roles.get(payload[2], "?")
    return "expr"


def send_sig(v, bid, variant, path):
    """[(class, variant, payload kind, effect, event index)] of a path."""
    out = []
    for i, e in ev_effects(path):
        if e.kind == "send":
            c = v.cls_of(e)
            out.append((c[0], e.variant, payload_kind(v, bid, variant, e.payload), e, i, c))
    return out


def opt_guarded(path, idx, load_expr):
    """GRD-opt: is event idx dominated (on this path) by the decision that this very cell load was Some?"""
    for (i, atom, ev) in guards_before(path, idx):
        if atom[0] == "discr" and atom[1] == load_expr and atom[2] in (1,):
            return True
        if atom[0] == "opt" and atom[1] == load_expr and atom[2] == "some":
            return True
    return False


def recv_load(e):
    """The cellload expression a receiver was taken from (or None)."""
    ls = [x for x in walk(e.recv) if x[0] == "cellload"]
    return ls[0] if ls else None


def recv_is_expect(e):
    """Receiver obtained by expect/unwrap of the cell content (not by a Some-pattern)."""
    return e.recv[0] == "someof" or any(x[0] == "someof" for x in walk(e.recv))


def lemma_rel_silent(ctx, v, bid, variant, lemma="REL-silent"):
    """No sends and no state writes on any path of the arm."""
    bad = []
    for p in v.arm(bid, variant):
        for i, e in ev_effects(p):
            if e.tracing:
                continue
            if e.kind == "send" or (e.kind == "atomic" and e.op != "load") or (e.kind == "cell" and e.op not in ("load", "load_full")) \
               or e.kind in ("pstore", "thunk", "usercall", "spawn", "iternext"):
                bad.append("%s at %s" % (e.kind, e.loc))
    return ctx.ob(lemma, v.key(bid, variant, lemma), not bad, "arm is silent" if not bad else "arm has effects: " + "; ".join(sorted(set(bad))[:4]), v.loc(bid))


def lemma_rel_one(ctx, v, bid, variant, cls, svariant, pkind, lemma="REL-1:1", what="", only_class=None):
    """On every returning path of the arm: exactly one send to class `cls`, of variant `svariant`, with payload kind
    `pkind`; and no other send to the classes in only_class (default: the same class)."""
    only = only_class or (cls,)
    paths = v.arm(bid, variant)
    problems = []
    npaths = 0
    for p in paths:
        if p.end not in ("return", "cut"):
            continue
        sig = [s for s in send_sig(v, bid, variant, p) if s[0] in only]
        want = [s for s in sig if s[0] == cls and s[1] == svariant and (pkind is None or s[2] == pkind)]
        if p.end == "cut":
            # a prefix of longer paths (loop bound): it may not have reached the send yet, but must not exceed it
            if len(sig) > 1 or len(want) != len(sig):
                problems.append("path sends %s" % ([(s[0], s[1], s[2]) for s in sig],))
            continue
        npaths += 1
        if len(sig) != 1 or len(want) != 1:
            problems.append("path sends %s" % ([(s[0], s[1], s[2]) for s in sig],))
    ok = not problems and npaths > 0
    return ctx.ob(lemma, v.key(bid, variant, lemma, what), ok,
                  ("every path sends exactly one %s(%s) to %s" % (svariant, pkind, cls)) if ok else
                  ("expected exactly one %s(%s) to %s on every path; %s" % (svariant, pkind, cls, "; ".join(sorted(set(problems))[:3]))),
                  v.loc(bid))


# ============================================================================= C05

@prop("C05", "other",
      "Decided on the MIR of every upstream-facing Error arm (all operators, all 12 combine arities, both feature "
      "configurations): REL-1:1 - every path through the arm sends exactly one message to the sink, of variant Error, whose "
      "payload is the arm's own incoming error binding reached through moves / Arc::clone only (clauses a, b, c); for merge and "
      "flatten the disposal of the sibling members / the other level (Some-guarded Terminate to every other talkback cell) "
      "precedes the relay on every path (clause d); share relays the incoming message itself to every element of the sink "
      "list (clause e). W5 (thorough) pins that the payload type is an Arc, so a moved binding is the same allocation. "
      "'Exactly once per subscription' additionally rests on C02's once-table. Not decided: histories outside axioms A1-A6. "
      "combine's member Error arm sends no Error at all: known finding KF-1.",
      axioms=["A1", "A2", "A3", "A6"])
def C05(ctx, model, tier, models):
    census_operators(ctx, model)
    for v in views(model):
        ups = v.by_role("UP", "UP_INNER")
        for h in ups:
            if v.family == "for_each":
                continue   # a sink: the error ends the subscription silently (C04 covers its discipline)
            paths = v.arm(h, "Error")
            if v.family == "share":
                _share_fanout(ctx, v, h, "Error", "C05")
                continue
            if v.family == "combine":
                # aggregated key over the macro-generated family (EQV-arity shows all arities agree)
                bad = []
                for p in returning(paths):
                    sig = [s for s in send_sig(v, h, "Error", p) if s[0] == "SINK"]
                    if not (len(sig) == 1 and sig[0][1] == "Error" and sig[0][2] == "in"):
                        bad.append([(s[1], s[2]) for s in sig])
                ctx.ob("REL-1:1", "combine:UP.E:REL-1:1:error-not-relayed", not bad,
                       "member Error arm of %s %s relays the error" % (v.name, v.label(h)) if not bad else
                       "member Error arm of %s %s sends %s to the sink instead of exactly one Error(incoming)" % (v.name, v.label(h), bad[:2]),
                       v.loc(h))
                continue
            lemma_rel_one(ctx, v, h, "Error", "SINK", "Error", "in", what="error-relayed")
            # (d) dispose the remaining live upstreams before relaying
            if v.family == "merge":
                _merge_sibling_disposal(ctx, v, h)
            if v.family == "flatten":
                _flatten_cross_disposal(ctx, v, h, "Error")
    ctx.floor("REL-1:1", 9 + 78)   # 9 relay arms (share's is REL-fanout) + 78 combine member arms
    ctx.floor("REL-fanout", 1)
    ctx.floor("REL-bcast", 3)


def _share_fanout(ctx, v, h, variant, pid):
    """REL-fanout: every send of the arm goes to an element of the (whole) sink list and carries the incoming message;
    one send per loop iteration."""
    problems = []
    n = 0
    for p in v.arm(h, variant):
        for s in send_sig(v, h, variant, p):
            n += 1
            cls, sv, pk, e, i, c = s
            if cls != "SINKLIST" or sv != "INCOMING" or pk != "msg":
                problems.append("send %s(%s) to %s at %s" % (sv, pk, cls, e.loc))
                continue
            nx = [x for x in walk(e.recv) if x[0] == "call" and x[2] == "std::iter::Iterator::next"]
            if not nx or nx[0][3][0][0] != "cellload":
                problems.append("receiver is not an element of the whole sink list at %s" % e.loc)
        # one send per iteration
        seg = 0
        for ev in p.events:
            if ev[0] == "br" and ev[1][0] == "discr" and ev[1][1][0] == "call" and ev[1][1][2] == "std::iter::Iterator::next":
                if ev[2] == 1:
                    seg = 0
            if ev[0] == "eff" and ev[1].kind == "send":
                seg += 1
                if seg > 1:
                    problems.append("more than one send per iteration")
    ok = not problems and n > 0
    ctx.ob("REL-fanout", v.key(h, variant, "REL-fanout"), ok,
           "the incoming message is cloned to every element of the sink list" if ok else "; ".join(sorted(set(problems))[:3]), v.loc(h))


def _merge_sibling_disposal(ctx, v, h):
    """merge UP.E: Terminate to every other member's cell (Some-guarded, index != own index, range 0..n) before the relay."""
    problems = []
    tb = v.talkback_cells()
    n_paths = 0
    for p in v.arm(h, "Error"):
        sig = send_sig(v, h, "Error", p)
        sink = [s for s in sig if s[0] == "SINK"]
        ups = [s for s in sig if s[0] == "UPTB"]
        if p.end == "return":
            n_paths += 1
        for s in ups:
            cls, sv, pk, e, i, c = s
            if sv != "Terminate":
                problems.append("sibling receives %s" % sv)
            ld = recv_load(e)
            if ld is None or not opt_guarded(p, i, ld):
                problems.append("sibling disposal not guarded by the cell being Some at %s" % e.loc)
            if sink and i > sink[0][4]:
                problems.append("sibling disposed after the relay at %s" % e.loc)
            # index differs from own index
            sel = cell_key(ld[1])[1] if ld else None
            if not sel or sel[0] != "idx":
                problems.append("sibling cell is not an indexed member cell")
            else:
                ne = [a for (_, a, _) in guards_before(p, i) if a[0] == "cmp" and a[3] == "!=" and a[4] == 0]
                if not any((a[1] == sel[1] or a[2] == sel[1]) for a in ne):
                    problems.append("no j != i test before the sibling disposal")
        # the relay comes after the loop has finished (range exhausted)
        if p.end == "return" and sink:
            done = [i for i, ev in ev_branches(p) if ev[1][0] == "discr" and ev[1][1][0] == "call" and ev[1][1][2] == "std::iter::Iterator::next" and ev[2] == 0]
            if not done or done[-1] > sink[0][4]:
                problems.append("relay before the sibling loop is exhausted")
    # the loop ranges over 0..n with n the member count
    rng = _range_loops(v, h, "Error")
    if not rng:
        problems.append("no 0..n loop over the members")
    for (lo, hi) in rng:
        if not (lo[0] == "const" and lo[3] == 0 and _is_member_count(v, hi)):
            problems.append("sibling loop does not range over 0..n")
    any_send = any(s[0] == "UPTB" for p in v.arm(h, "Error") for s in send_sig(v, h, "Error", p))
    if not any_send:
        problems.append("no sibling disposal at all")
    ok = not problems
    ctx.ob("REL-bcast", v.key(h, "Error", "REL-bcast", "siblings-disposed-before-relay"), ok,
           "every other member cell that is Some is sent Terminate before the Error is relayed" if ok else "; ".join(sorted(set(problems))[:4]),
           v.loc(h))


def _range_loops(v, bid, variant):
    out = set()
    for p in v.arm(bid, variant):
        for i, ev in ev_branches(p):
            c = ev[1]
            if c[0] == "discr" and c[1][0] == "call" and c[1][2] == "std::iter::Iterator::next":
                src = c[1][3][0]
                if src[0] == "agg" and src[2].startswith("Range::"):
                    out.add((src[3][0], src[3][1]))
    return out


def _is_member_count(v, e):
    """e is len(sources) of the factory's member collection."""
    if e[0] == "call" and e[2].endswith("::len"):
        ps = [x for x in walk(e) if x[0] == "param"]
        return bool(ps) and all(not v.P.bodies[x[1]].is_handler() for x in ps)
    return False


def _flatten_cross_disposal(ctx, v, h, variant):
    """flatten error arms: the other level's talkback cell is tested and, if Some, sent Terminate before the relay."""
    problems = []
    own_cells = {k for k, lst in v.talkback_cells().items() if any(hh == h for hh, _ in lst)}
    other = [k for k in v.talkback_cells() if k not in own_cells]
    for p in returning(v.arm(h, variant)):
        sig = send_sig(v, h, variant, p)
        sink = [s for s in sig if s[0] == "SINK"]
        if not sink:
            continue
        before = [s for s in sig if s[0] == "UPTB" and s[4] < sink[0][4]]
        tested_none = False
        for (i, a, ev) in guards_before(p, sink[0][4]):
            if a[0] == "discr" and a[1][0] == "cellload" and base_key(a[1][1]) in other and a[2] != 1:
                tested_none = True
            if a[0] == "opt" and a[1][0] == "cellload" and base_key(a[1][1]) in other and a[2] == "none":
                tested_none = True
        disposed = [s for s in before if s[1] == "Terminate" and recv_load(s[3]) is not None and base_key(recv_load(s[3])[1]) in other
                    and opt_guarded(p, s[4], recv_load(s[3]))]
        if not (tested_none or disposed):
            problems.append("a path relays the error without testing / disposing the other level")
        if len(disposed) > 1:
            problems.append("other level disposed twice")
    ok = not problems and other
    ctx.ob("REL-bcast", v.key(h, variant, "REL-bcast", "other-level-disposed-before-relay"), ok,
           "the other level is disposed (if still subscribed) before the error is relayed" if ok else "; ".join(sorted(set(problems))[:3]) or "no other-level cell", v.loc(h))


# ============================================================================= C13

def _under_clone_ok(v, e, root_bodies):
    """Every factory/application parameter leaf of e is reached through a Clone::clone / into_iter of a clone evaluated per subscription."""
    bad = []
    def rec(x, cloned):
        if not isinstance(x, tuple) or not x:
            return
        if x[0] == "param":
            if not v.P.bodies[x[1]].is_handler() and not cloned:
                bad.append(x)
            return
        if x[0] == "call" and x[2] == "Clone::clone" and x[1][0] in root_bodies:
            cloned = True
        for y in x[1:]:
            if isinstance(y, tuple) and y and isinstance(y[0], str):
                rec(y, cloned)
            elif isinstance(y, tuple):
                for z in y:
                    if isinstance(z, tuple) and z and isinstance(z[0], str):
                        rec(z, cloned)
    rec(e, False)
    return bad


@prop("C13", "proof",
      "Separation argument, decided statically for every operator except share (DESIGN 6/C13): (1) SCP-static - the crate declares "
      "no interior-mutable static or thread_local outside tracing's call-site statics; (2) CEN-C + SCP-sub - every interior-mutable "
      "cell touched by any handler (found by effect, allocation site resolved through captures) and every local of a factory / "
      "application body whose type contains an UnsafeCell (found by type, after peeling Arc/Box/&/Vec, ignoring type parameters and "
      "trait objects) is allocated inside ROOT's Handshake arm or deeper (for the sink factory for_each: inside one application); "
      "ROOT's other arms are silent; (3) SCP-clone - whatever a cell's initial value takes from factory scope is a per-subscription "
      "Clone made in ROOT (iterator, seed), and ROOT closures capture no interior-mutable value; (4) PL-sub - upstream sources are "
      "subscribed from ROOT.H or deeper, i.e. afresh per subscription. Obligations = statics + cells + typed locals + captures + "
      "subscribe sites, all must be discharged. share's two factory-scope cells are the excepted, intended sharing.",
      trusted_base=["cbmir extractor (rustc MIR, -Zmir-opt-level=0)", "UnsafeCell-based detection of interior mutability",
                    "user types I, F, N, T carry no hidden shared state", "witnesses W2/W3 (thorough tier): handlers are Fn + Send + Sync"],
      axioms=[])
def C13(ctx, model, tier, models):
    census_operators(ctx, model)
    P = model.prog
    # (1) statics
    n_static = 0
    for s in P.statics:
        tr = own_file(s["s"]).startswith("dep:tracing") or any("@dep:tracing" in b for b in s["s"].get("bt", []))
        imut = "imut" in s["flags"] or s["mutable"] or s["thread_local"]
        n_static += 1
        ctx.ob("SCP-static", "static:%s" % s["path"].split("::")[-1] if not tr else "static:tracing-callsite", (not imut) or tr,
               "static %s (%s) %s" % (s["path"], s["ty"][:60], "is tracing call-site bookkeeping" if tr else ("is immutable" if not imut else "is interior-mutable shared state")),
               loc_of(s["s"]))
    ctx.ob("SCP-static", "static:census", True, "%d statics inspected" % n_static)
    for v in views(model):
        excepted = v.family == "share"
        root_bodies = set()
        if v.root:
            root_bodies = {v.root} | {b for b in v.op.bodies if v.root in P.ancestors(b)}
        sub_scope_ok = ("SUBSCRIPTION", "DELIVERY") + (("APPLICATION",) if v.cls == "sink" else ())
        # (2a) cells by effect
        for k, c in sorted(v.op.cells.items(), key=lambda kv: str(kv[0])):
            name = c.name or "cell"
            ok = c.scope in sub_scope_ok
            if excepted:
                ctx.ob("SCP-sub", "%s:cell:%s:excepted" % (v.name, name), c.scope == "FACTORY",
                       "share cell %s is factory-scoped by design (the intended sharing)" % name, None)
                continue
            ctx.ob("SCP-sub", "%s:cell:%s:scope" % (v.name, name), ok,
                   "cell %s is allocated at %s scope (%s)" % (name, c.scope, show(c.alloc)[:80]), None)
            # (3) initial value
            bad = _under_clone_ok(v, c.alloc, root_bodies | ({b for b in v.op.bodies if v.op.roles.get(b) == "APPLICATION"} if v.cls == "sink" else set()))
            # plain Copy parameters (usize bounds, Duration) may flow in directly: only user-typed (param) values need the clone
            bad2 = []
            for x in bad:
                lt = P.bodies[x[1]].locals[x[2]]
                if "param" in lt["flags"] or "imut" in lt["flags"]:
                    bad2.append(x)
            ctx.ob("SCP-clone", "%s:cell:%s:init" % (v.name, name), not bad2,
                   "initial value of %s is per-subscription" % name if not bad2 else
                   "initial value of %s takes %s from factory scope without a per-subscription clone" % (name, [show(x) for x in bad2]), None)
        # (2b) locals by type in factory / application / helper bodies
        for b in v.op.bodies:
            r = v.op.roles.get(b)
            if r not in ("FACTORY", "APPLICATION", "HELPER"):
                continue
            if v.cls == "sink" and r == "APPLICATION":
                continue
            body = P.bodies[b]
            for l, d in sorted(body.locals.items()):
                if "imut" not in d["flags"]:
                    continue
                if excepted:
                    continue
                if _is_tracing_local(body, l):
                    continue
                ctx.ob("SCP-sub", "%s:%s:typed-local" % (v.name, v.label(b)), False,
                       "%s body holds a value with interior mutability: _%d: %s" % (r, l, d["ty"][:90]), v.loc(b))
            ctx.ob("SCP-sub", "%s:%s:typed-locals-census" % (v.name, v.label(b)), True, "%d locals inspected" % len(body.locals), v.loc(b))
        # ROOT: captures carry no interior mutability; non-H arms silent
        if v.root:
            rb = P.bodies[v.root]
            for cap in rb.captures:
                if excepted:
                    continue
                ok = "imut" not in cap["flags"]
                ctx.ob("SCP-clone", "%s:ROOT:capture:%s" % (v.name, cap["name"]), ok,
                       "ROOT captures %s: %s%s" % (cap["name"], cap["ty"][:70], "" if ok else " (interior-mutable state shared by all subscriptions)"), v.loc(v.root))
            for var in ("Data", "Pull", "Error", "Terminate"):
                lemma_rel_silent(ctx, v, v.root, var)
        # (4) subscribe sites
        for e, b in v.sends():
            if e.variant != "Handshake":
                continue
            c = v.cls_of(e)
            if c[0] not in ("UPSRC", "UPSRC_INNER"):
                continue
            r = v.op.roles.get(b)
            ok = b in root_bodies or (v.cls == "sink" and r == "APPLICATION")
            ctx.ob("PL-sub", "%s:%s:PL-sub:scope" % (v.name, v.label(b)), ok,
                   "upstream is subscribed from %s (%s)" % (r, "per subscription" if ok else "shared by all subscriptions"), e.loc)
    ctx.floor("SCP-sub", 31 + 12 * 4)   # 31 cells at subscription/application scope (+ share's 2), combine counted per arity
    ctx.floor("PL-sub", 12)


def _is_tracing_local(body, l):
    ty = body.locals[l]["ty"]
    return ty.startswith("tracing::") or ty.startswith("&tracing::") or "tracing::span::" in ty[:40] or ty.startswith("tracing_core::")


# ============================================================================= shared: counters and once-guards

def cell_writes(v, base):
    """All non-load effects on the cell with this base key, anywhere in the operator: [(effect, body id)]."""
    out = []
    for (e, b) in v.cell_effects(base):
        if e.kind == "atomic" and e.op == "load":
            continue
        if e.kind == "cell" and e.op in ("load", "load_full"):
            continue
        out.append((e, b))
    return out


def cell_init(v, base):
    """Initial constant of an atomic cell (None if not a constant)."""
    c = v.op.cells.get(base)
    if c is None:
        return None
    a = c.alloc
    if a[0] == "call" and a[3]:
        x = a[3][0]
        if x[0] == "const":
            return x[3]
    return None


def grd_once(v, path, idx):
    """GRD-once: is event idx guarded by `post(RMW) == k` on a monotone unit-step counter?  Returns a dict or None."""
    for (i, a, ev) in guards_before(path, idx):
        if a[0] != "cmp" or a[3] != "==":
            continue
        for (L, R, sign) in ((a[1], a[2], 1), (a[2], a[1], -1)):
            ct = counter_term(L)
            if ct is None or ct[0] != "pre":
                continue
            _, ck, site, op, operand = ct
            if op not in ("fetch_add", "fetch_sub") or operand is None or operand[0] != "const" or operand[3] != 1:
                continue
            step = 1 if op == "fetch_add" else -1
            # L - R == c  (sign=1)   or   R' - L == c  (sign=-1, L is the counter)  =>  pre == R + c*sign
            c = a[4] * sign
            # every write of the counter is the same unit-step RMW
            uniform = True
            for (e2, b2) in cell_writes(v, ck[0]):
                if not (e2.kind == "atomic" and e2.op == op and e2.operand is not None and e2.operand[0] == "const" and e2.operand[3] == 1):
                    uniform = False
            init = cell_init(v, ck[0])
            scope = v.op.cells[ck[0]].scope if ck[0] in v.op.cells else None
            # the RMW must be on this path before the guard, with no send in between
            rmw_idx = None
            for j, e in ev_effects(path):
                if e.kind == "atomic" and e.site == site and j < i:
                    rmw_idx = j
            sends_between = [e for j, e in ev_effects(path) if rmw_idx is not None and rmw_idx < j < idx and e.kind == "send"]
            return {"cell": ck, "op": op, "step": step, "bound": R, "post_offset": c + step, "uniform": uniform, "init": init,
                    "scope": scope, "rmw_idx": rmw_idx, "adjacent": rmw_idx is not None and not sends_between, "guard_idx": i}
    return None


def site_arms(v, bid, site):
    """Variants of the arms of handler bid in which the effect at `site` can execute."""
    out = []
    b = v.P.bodies[bid]
    arms = VARIANTS if b.is_handler() else [None]
    for var in arms:
        for p in v.arm(bid, var):
            if any(e.site == site for _, e in ev_effects(p)):
                out.append(var)
                break
    return out


def thunk_callers(v, target):
    """[(caller body, variant, effect)] of every call of the local thunk `target` inside the operator."""
    out = []
    for b in v.op.bodies:
        for e in v.all_effects(b):
            if e.kind == "thunk" and e.target == target:
                for var in site_arms(v, b, e.site):
                    out.append((b, var, e))
            if (e.kind in ("hocall", "alias", "other", "cell", "atomic", "spawn") and target in (e.get("closures") or [])) or e.get("closure") == target or e.get("task") == target:
                for var in site_arms(v, b, e.site):
                    out.append((b, var, e))
    return out


def greet_sends(v):
    return [(e, b) for e, b in v.sends() if e.variant == "Handshake" and v.cls_of(e)[0] in ("SINK", "SINKLIST")]


def nonh_sink_sends(v):
    return [(e, b) for e, b in v.sends() if e.variant != "Handshake" and v.cls_of(e)[0] in ("SINK", "SINKLIST")]


# ============================================================================= C01

@prop("C01", "other",
      "Structural proof of (a) at most one Handshake per subscription reaches the sink and (b) no Data/Error/Terminate reaches it "
      "before its greeting began, for every operator and all 12 combine arities, in both feature configurations, under peer axioms "
      "A1-A6 (late greeters included). Lemmas decided on the MIR path sets: PL-greet (greeting sites are exactly one per UP.H arm, "
      "or in ROOT for from_iter / interval / share-later, never in a loop, at most one per path), REL-1:1 for the unary relays, "
      "GRD-once on merge's start_count (post==1) and combine's n_start (post==0, init N = member count) with ORD-adjacent, concat's "
      "GRD-cmp i==0, interval's and share's REL-xor in ROOT.H, PL-nonH (every non-Handshake send to the sink sits in a non-H arm of "
      "an upstream-facing handler, in a thunk called only from such arms / DOWN.P / the spawned task, or in interval's refusal "
      "branch), ORD-no-upcall-before-greet and ORD-store-pub in every UP.H arm, ESC-down / ESC-sink (the talkback and the sink do "
      "not leak). Not decided: interval's first tick relative to the greeting (needs timer axiom A8, finding R-1).",
      axioms=["A1", "A2", "A3", "A4", "A5", "A6", "A8 (interval only)"])
def C01(ctx, model, tier, models):
    census_operators(ctx, model)
    for v in views(model):
        if v.cls == "sink":
            continue
        P = v.P
        greets = greet_sends(v)
        # ---- PL-greet: where the greeting sites are
        for e, b in greets:
            role = v.op.roles.get(b)
            arms = site_arms(v, b, e.site)
            if role in ("UP",):
                ok = arms == ["Handshake"]
                why = "greeting in %s arm(s) %s" % (v.label(b), arms)
            elif role == "ROOT":
                ok = arms == ["Handshake"] and v.family in ("from_iter", "interval", "share")
                why = "greeting in ROOT (%s)" % v.family
            else:
                ok = False
                why = "greeting in a %s body" % role
            ctx.ob("PL-greet", v.key(b, None, "PL-greet", "site"), ok, why, e.loc)
            # never in a loop, at most one greeting per path
            multi = False
            for var in (VARIANTS if P.bodies[b].is_handler() else [None]):
                for p in v.arm(b, var):
                    if len([1 for s in send_sig(v, b, var, p) if s[1] == "Handshake" and s[0] in ("SINK", "SINKLIST")]) > 1:
                        multi = True
            ctx.ob("PL-greet", v.key(b, None, "PL-greet", "once-per-path"), not multi,
                   "no path of %s greets twice" % v.label(b) if not multi else "a path greets the sink twice", e.loc)
        ctx.ob("PL-greet", "%s:PL-greet:exists" % v.name, len(greets) >= 1, "%d greeting site(s)" % len(greets), v.loc(v.op.id))
        # ---- per class once-argument
        ups = v.by_role("UP")
        if v.cls == "unary" or v.family in ("flatten", "share"):
            for h in ups:
                lemma_rel_one(ctx, v, h, "Handshake", "SINK", "Handshake", "closure:DOWN", what="greet")
        if v.family in ("merge", "combine"):
            members = len(ups)
            for h in ups:
                found = False
                for p in v.arm(h, "Handshake"):
                    for s in send_sig(v, h, "Handshake", p):
                        if s[1] == "Handshake" and s[0] == "SINK":
                            found = True
                            g = grd_once(v, p, s[4])
                            key = v.key(h, "Handshake", "GRD-once", "greet")
                            if g is None:
                                ctx.ob("GRD-once", key, False, "greeting is not guarded by an equality on the result of an atomic read-modify-write", s[3].loc)
                                continue
                            post_k = g["post_offset"]
                            bound_ok = g["bound"] is None
                            if v.family == "merge":
                                want = g["step"] == 1 and g["init"] == 0 and post_k == 1
                            else:
                                want = g["step"] == -1 and g["init"] == members and post_k == 0
                            ok = bound_ok and want and g["uniform"] and g["scope"] == "SUBSCRIPTION"
                            ctx.ob("GRD-once", key, ok,
                                   "greeting guarded by post(%s)==%s, init %s, step %+d, uniform writes %s, %s scope; members=%d" % (
                                       v.m.cell_name(v.op, ("call",) + g["cell"][0] + ((),)) if False else str(v.op.cells[g["cell"][0]].name), post_k, g["init"], g["step"], g["uniform"], g["scope"], members), s[3].loc)
                            ctx.ob("ORD-adjacent", v.key(h, "Handshake", "ORD-adjacent", "greet"), g["adjacent"],
                                   "no send between the counter update and the greeting it guards" if g["adjacent"] else "a send lies between the counter update and the guarded greeting", s[3].loc)
                # exactly one RMW of the greeting counter on every path of the arm (each member counts once)
                ctx.ob("PL-greet", v.key(h, "Handshake", "PL-greet", "member-greets"), found, "member arm contains the guarded greeting", v.loc(h))
        if v.family == "concat":
            for h in ups:
                for p in v.arm(h, "Handshake"):
                    for s in send_sig(v, h, "Handshake", p):
                        if s[1] == "Handshake" and s[0] == "SINK":
                            ok = False
                            cellk = None
                            for (i, a, ev) in guards_before(p, s[4]):
                                if a[0] == "cmp" and a[3] == "==" and a[4] == 0 and a[2] is None:
                                    ct = counter_term(a[1])
                                    if ct and ct[0] == "cur":
                                        ok = True
                                        cellk = ct[1]
                            ctx.ob("GRD-cmp", v.key(h, "Handshake", "GRD-cmp", "greet-first-member-only"), ok,
                                   "greeting guarded by member index == 0" if ok else "greeting not guarded by member index == 0", s[3].loc)
                            if cellk:
                                # the index is written only by a unit increment in UP.T that precedes the call of `next`
                                ws = cell_writes(v, cellk[0])
                                good = all(e2.kind == "atomic" and e2.op == "fetch_add" and e2.operand[3] == 1 and v.op.roles.get(b2) == "UP" and site_arms(v, b2, e2.site) == ["Terminate"] for e2, b2 in ws) and cell_init(v, cellk[0]) == 0
                                ctx.ob("GRD-cmp", v.key(h, "Handshake", "GRD-cmp", "index-monotone"), good and len(ws) >= 1,
                                       "member index starts at 0 and is written only by +1 in the member's Terminate arm", s[3].loc)
        if v.family in ("from_iter",):
            r = v.root
            lemma_rel_one(ctx, v, r, "Handshake", "SINK", "Handshake", "closure:DOWN", what="greet")
        if v.family == "interval":
            r = v.root
            probs = []
            n_ok = n_err = 0
            for p in returning(v.arm(r, "Handshake")):
                sig = [s for s in send_sig(v, r, "Handshake", p) if s[0] == "SINK"]
                spawns = [(i, e) for i, e in ev_effects(p) if e.kind == "spawn"]
                if len(spawns) != 1:
                    probs.append("not exactly one spawn")
                    continue
                dec = [a for (i, a, ev) in guards_before(p, len(p.events)) if a[0] == "discr" and a[1][0] == "call" and "nurse" in a[1][2]]
                if not dec:
                    probs.append("spawn result not tested")
                    continue
                is_err = dec[0][2] == 1
                if is_err:
                    n_err += 1
                    if [(s[1]) for s in sig] != ["Error"]:
                        probs.append("refusal path sends %s" % [s[1] for s in sig])
                else:
                    n_ok += 1
                    if [(s[1], s[2]) for s in sig] != [("Handshake", "closure:DOWN")]:
                        probs.append("accept path sends %s" % [s[1] for s in sig])
            ok = not probs and n_ok >= 1 and n_err >= 1
            ctx.ob("REL-xor", v.key(r, "Handshake", "REL-xor", "greet-or-refuse"), ok,
                   "ROOT.H sends exactly one of {Error (spawn failed), Handshake (spawned)}" if ok else "; ".join(probs) or "missing branch", v.loc(r))
        if v.family == "share":
            r = v.root
            probs = []
            kinds = set()
            for p in returning(v.arm(r, "Handshake")):
                sig = send_sig(v, r, "Handshake", p)
                hs = [(s[0], s[1]) for s in sig]
                if hs == [("UPSRC", "Handshake")]:
                    kinds.add("subscribe")
                elif hs == [("SINK", "Handshake")]:
                    kinds.add("greet")
                else:
                    probs.append("path sends %s" % hs)
            ok = not probs and kinds == {"subscribe", "greet"}
            ctx.ob("REL-xor", v.key(r, "Handshake", "REL-xor", "subscribe-or-greet"), ok,
                   "ROOT.H either subscribes upstream (and returns) or greets the later sink directly" if ok else "; ".join(probs) or str(kinds), v.loc(r))
        # ---- PL-nonH
        for e, b in nonh_sink_sends(v):
            role = v.op.roles.get(b)
            arms = site_arms(v, b, e.site)
            ok, why = False, ""
            if role in ("UP", "UP_INNER"):
                ok = "Handshake" not in arms
                why = "%s send in %s arms %s" % (e.variant, v.label(b), [VSHORT[a] for a in arms])
            elif role == "THUNK":
                callers = thunk_callers(v, b)
                good = []
                for (cb, cvar, ce) in callers:
                    cr = v.op.roles.get(cb)
                    if cr in ("UP", "UP_INNER") and cvar != "Handshake":
                        good.append(True)
                    elif cr == "DOWN" and cvar == "Pull" and v.family == "from_iter":
                        good.append(True)
                    elif cr == "ROOT" and cvar == "Handshake" and v.family == "concat":
                        # the first call of `next`: the member index still has its initial value 0, so for n >= 1 the
                        # completion branch is not taken (value fact recorded as an assumption)
                        good.append(True)
                    else:
                        good.append(False)
                ok = bool(callers) and all(good)
                why = "%s send in thunk %s called from %s" % (e.variant, v.label(b), sorted({"%s.%s" % (v.label(cb), VSHORT.get(cv, "-")) for cb, cv, _ in callers}))
            elif role == "TASK":
                callers = thunk_callers(v, b)
                ok = v.family == "interval" and bool(callers) and all(v.op.roles.get(cb) == "ROOT" and cv == "Handshake" for cb, cv, _ in callers)
                why = "%s send in the task spawned by ROOT.H" % e.variant
            elif role == "ROOT":
                ok = v.family == "interval" and e.variant == "Error" and arms == ["Handshake"]
                why = "interval's refusal (spawn error) in ROOT.H"
            else:
                why = "%s send in a %s body" % (e.variant, role)
            ctx.ob("PL-nonH", v.key(b, None, "PL-nonH", "%s-site" % VSHORT.get(e.variant, e.variant)), ok, why, e.loc)
        # ---- order lemmas in UP.H arms
        tb = v.talkback_cells()
        down_reads = set()
        for d in v.by_role("DOWN"):
            for e in v.all_effects(d):
                if e.kind == "cell" and e.op in ("load", "load_full"):
                    down_reads.add(base_key(e.cell))
        for h in ups:
            bad_up, bad_store = [], []
            stores_here = [k for k, lst in tb.items() if any(hh == h for hh, _ in lst)]
            for p in v.arm(h, "Handshake"):
                sig = send_sig(v, h, "Handshake", p)
                g = [s for s in sig if s[1] == "Handshake" and s[0] in ("SINK", "SINKLIST")]
                if not g:
                    continue
                gi = g[0][4]
                for s in sig:
                    if s[0] in ("UPTB", "UPSRC", "UPSRC_INNER") and s[4] < gi:
                        bad_up.append(s[3].loc)
                for k in stores_here:
                    if k in down_reads:
                        st = [i for i, e in ev_effects(p) if e.kind == "cell" and e.op == "store" and base_key(e.cell) == k and i < gi]
                        if not st:
                            bad_store.append(str(v.op.cells[k].name))
            ctx.ob("ORD-no-upcall-before-greet", v.key(h, "Handshake", "ORD-no-upcall-before-greet"), not bad_up,
                   "nothing is sent upstream before the greeting" if not bad_up else "upstream is called before the sink is greeted at %s" % bad_up[:2], v.loc(h))
            if any(k in down_reads for k in stores_here):
                ctx.ob("ORD-store-pub", v.key(h, "Handshake", "ORD-store-pub"), not bad_store,
                       "talkback cell is stored before the talkback that reads it is published" if not bad_store else
                       "greeting publishes a talkback that reads %s before it is stored" % sorted(set(bad_store)), v.loc(h))
        # ---- escape lemmas
        _escape_lemmas(ctx, v)
    ctx.floor("PL-greet", 13)
    ctx.floor("PL-nonH", 40)
    ctx.floor("GRD-once", 1 + 78)
    ctx.assumptions.append("concat!() has at least one member (the property's own bound): with zero members the first call of `next` would terminate an ungreeted sink")


def _escape_lemmas(ctx, v):
    """ESC-down: the DOWN handler value flows only into aliases, captures and the greeting payload.
       ESC-sink: the sink flows only into send receivers, captures, aliases, share's list and Arc::ptr_eq."""
    downs = set(v.by_role("DOWN"))
    root = v.root
    bad_down, bad_sink = [], []
    n = 0
    for b in v.op.bodies:
        for e in v.all_effects(b):
            if e.tracing:
                continue
            args = e.get("args") or []
            if e.kind == "send":
                if e.payload is not None and e.variant != "Handshake":
                    for x in walk(e.payload):
                        if x[0] == "agg" and x[1] == "closure" and x[2] in downs:
                            bad_down.append("talkback sent as %s payload at %s" % (e.variant, e.loc))
                if e.variant == "Handshake" and e.payload is not None and e.payload[0] == "agg" and e.payload[2] in downs:
                    n += 1
                    if v.cls_of(e)[0] not in ("SINK", "SINKLIST"):
                        bad_down.append("talkback handed to %s at %s" % (v.cls_of(e)[0], e.loc))
                continue
            if e.kind in ("alias",):
                continue
            vals = list(args)
            if e.kind == "cell" and e.value is not None:
                vals.append(e.value)
            if e.kind == "pstore":
                vals.append(e.value if isinstance(e.value, tuple) else ("unit",))
            for a in vals:
                if not isinstance(a, tuple):
                    continue
                for x in walk(a):
                    if x[0] == "agg" and x[1] == "closure" and x[2] in downs and a[0] == "agg" and a[1] == "closure" and a[2] in downs:
                        bad_down.append("talkback passed to %s at %s" % (e.get("callee") or e.kind, e.loc))
                if root and v.m.hs_payload_of(a) and root in v.m.hs_payload_of(a):
                    top_is_sink = (a == incoming_payload(root, "Handshake"))
                    if not top_is_sink:
                        continue   # the sink inside a closure capture / aggregate: captured, not passed
                    cal = e.get("callee") or ""
                    if e.kind in ("other", "hocall") and (cal.endswith("Arc::<T, A>::ptr_eq") or cal.endswith("::ptr_eq") or cal.endswith("Vec::<T, A>::push") or cal.endswith("::push")):
                        continue
                    if e.kind in ("other",) and cal.startswith("std::ops::Deref"):
                        continue
                    bad_sink.append("sink passed to %s at %s" % (cal or e.kind, e.loc))
    if downs:
        ctx.ob("ESC-down", "%s:ESC-down" % v.name, not bad_down and n >= 1,
               "the talkback flows only into the greeting payload" if not bad_down else "; ".join(sorted(set(bad_down))[:3]), v.loc(v.op.id))
    if root:
        ctx.ob("ESC-sink", "%s:ESC-sink" % v.name, not bad_sink,
               "the sink flows only into send receivers, captures, share's list and Arc::ptr_eq" if not bad_sink else "; ".join(sorted(set(bad_sink))[:3]), v.loc(v.op.id))
