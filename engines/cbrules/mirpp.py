"""Pretty printer for cbmir fact files (debugging aid; no property logic)."""
import json, sys

def pl(p):
    s = "_%d" % p["l"]
    for e in p["p"]:
        if e == "*": s = "(*%s)" % s
        elif isinstance(e, list):
            if e[0] == "f": s = "%s.%d" % (s, e[1])
            elif e[0] == "d": s = "(%s as %s)" % (s, e[1] or e[2])
            elif e[0] == "i": s = "%s[_%d]" % (s, e[1])
            else: s = "%s{%s}" % (s, e)
        else: s = "%s{%s}" % (s, e)
    return s

def op(o):
    if "copy" in o: return "copy " + pl(o["copy"])
    if "move" in o: return "move " + pl(o["move"])
    c = o["const"]
    return "const %s" % (c.get("v"),)

def rv(r):
    k = r["k"]
    if k == "use": return op(r["o"])
    if k == "ref": return "&%s%s" % ("mut " if r["mut"] else "", pl(r["p"]))
    if k == "rawptr": return "&raw " + pl(r["p"])
    if k == "cast": return "%s as %s (%s)" % (op(r["o"]), r["ty"][:60], r["ck"])
    if k == "binop": return "%s(%s, %s)" % (r["op"], op(r["a"]), op(r["b"]))
    if k == "unop": return "%s(%s)" % (r["op"], op(r["o"]))
    if k == "discr": return "discriminant(%s)" % pl(r["p"])
    if k == "agg":
        ak = r["ak"]
        if ak == "adt": head = "%s::%s" % (r["adt"], r["variant"])
        elif ak in ("closure", "coroutine"): head = "%s[%s]" % (ak, r["def"])
        else: head = ak
        return "%s(%s)" % (head, ", ".join(op(o) for o in r["ops"]))
    return json.dumps(r)[:120]

def callee(c):
    if "def" in c:
        s = c["def"]
        if c.get("ga"): s += "<%s>" % ", ".join(g[:50] for g in c["ga"])
        if "res" in c and c["res"] != c["def"]: s += " => " + c["res"]
        if c.get("msg_call"): s = "[MSG] " + s
        return s
    return "indirect " + op(c["indirect"])

def show_body(b, out=sys.stdout):
    w = out.write
    w("== %s  kind=%s span=%s..%s args=%d\n" % (b["id"], b["kind"], b["span"]["sp"], b.get("span_hi"), b["arg_count"]))
    for c in b.get("captures", []):
        w("   cap %d %s by_ref=%s : %s %s\n" % (c["idx"], c["name"], c["by_ref"], c["ty"][:100], c["flags"]))
    for l in b["locals"]:
        w("   let _%d: %s %s\n" % (l["l"], l["ty"][:110], l["flags"] or ""))
    for d in b["debug"]:
        v = d["val"]
        w("   debug %s => %s\n" % (d["name"], pl(v) if "l" in v else op(v)))
    for blk in b["blocks"]:
        w("  bb%d%s:\n" % (blk["id"], " (cleanup)" if blk["cleanup"] else ""))
        for st in blk["stmts"]:
            if "lhs" in st:
                w("    %s = %s    // %s\n" % (pl(st["lhs"]), rv(st["rv"]), st["s"].get("cs", st["s"]["sp"])))
        t = blk["term"]
        k = t["k"]
        loc = blk["ts"].get("cs", blk["ts"]["sp"])
        if k == "call":
            w("    %s = %s(%s) -> %s    // %s\n" % (pl(t["dest"]), callee(t["callee"]), ", ".join(op(a) for a in t["args"]), t["succ"], loc))
        elif k == "switch":
            w("    switchInt(%s) -> %s otherwise %s    // %s\n" % (op(t["discr"]), t["targets"], t["otherwise"], loc))
        elif k == "assert":
            w("    assert(%s == %s, %s) -> %s\n" % (op(t["cond"]), t["expected"], t["msg"], t["succ"]))
        elif k == "drop":
            w("    drop(%s) -> %s\n" % (pl(t["p"]), t["succ"]))
        else:
            w("    %s -> %s\n" % (k, t["succ"]))

if __name__ == "__main__":
    d = json.load(open(sys.argv[1]))
    pat = sys.argv[2] if len(sys.argv) > 2 else ""
    exact = len(sys.argv) > 3 and sys.argv[3] == "exact"
    for b in d["bodies"]:
        if (exact and b["id"] == pat) or (not exact and pat in b["id"]):
            show_body(b)
