#!/usr/bin/env python3
"""Rewrites the table 'What each check instantiates on the current tree' in DESIGN.md from evidence/*.json (quick runs)."""
import json, os, re
V = os.path.dirname(os.path.dirname(os.path.abspath(__file__)))
CENSUS = {"CEN-H", "CEN-S", "CEN-call", "CEN-core", "CEN-CFG", "CEN-helper", "census-floor"}
rows = []
for i in range(1, 21):
    pid = "C%02d" % i
    e = json.load(open(os.path.join(V, "evidence", pid + ".json")))
    cov = e["coverage"]
    fam = {k: v for k, v in cov.get("lemma_instances", {}).items() if k not in CENSUS}
    rows.append("| %s | %s | %d | %s | %s |" % (pid, e["level"], cov["evaluations"], ", ".join("%s %d" % (k, fam[k]) for k in sorted(fam)),
                                            ", ".join(cov.get("known_findings_matched", [])) or "-"))
p = os.path.join(V, "DESIGN.md")
s = open(p).read()
head = "| property | level | lemma instances (both configurations) |"
i = s.index(head)
j = s.index("\n\n", i)
lines = s[i:j].split("\n")
new = "\n".join(lines[:2] + rows)
open(p, "w").write(s[:i] + new + s[j:])
print("table rewritten: %d rows" % len(rows))
