//! Macro-expansion probe (DESIGN.md section 12): the crate's exported `macro_rules!` (`pipe!`, `merge!`, `concat!`, `combine!`)
//! only exist expanded at a use site, so they are not in the library's MIR. These four functions are use sites whose MIR the
//! extractor dumps; the rule engine checks how the arguments flow into the library's entry points. Nothing here is ever run.
use callbag::Source;

pub fn probe_concat(a: Source<u8>, b: Source<u8>, c: Source<u8>) -> Source<u8> {
    callbag::concat!(a, b, c)
}

pub fn probe_merge(a: Source<u8>, b: Source<u8>, c: Source<u8>) -> Source<u8> {
    callbag::merge!(a, b, c)
}

pub fn probe_combine(a: Source<u8>, b: Source<u16>, c: Source<u32>) -> Source<(u8, u16, u32)> {
    callbag::combine!(a, b, c)
}

pub fn probe_pipe(x: u8, f: fn(u8) -> u16, g: fn(u16) -> u32, h: fn(u32) -> u64) -> u64 {
    callbag::pipe!(x, f, g, h)
}

pub fn probe_pipe2(x: u8, f: fn(u8) -> u16) -> u16 {
    callbag::pipe!(x, f,)
}
