#!/usr/bin/env python3
"""Write seeded/INDEX.md: one row per kept seeded change (from the meta.json files)."""
import json, os
root = os.path.join(os.path.dirname(os.path.abspath(__file__)), "..", "seeded")
rows = []
for d in sorted(os.listdir(root)):
    mp = os.path.join(root, d, "meta.json")
    if not os.path.exists(mp):
        continue
    m = json.load(open(mp))
    first = m.get("checks_fired_at_first_evaluation")
    first_s = " ".join(first) if first and not str(first[0]).startswith("(") else (first[0] if first else "-")
    rows.append("| %s | %s | %s | %s | %s | %s |" % (
        d, m["breaks_property"], (m.get("summary") or "").replace("|", "/").replace("\n", " ")[:230],
        (m.get("needs_to_manifest") or "").replace("|", "/").replace("\n", " ")[:200],
        first_s or "(none)", " ".join(m.get("checks_fired_now", []))))
with open(os.path.join(root, "INDEX.md"), "w") as f:
    f.write("# Kept seeded changes\n\nEach directory holds `patch.diff` (source change only), `demo.rs` (the demonstration test that fails with the "
            "change and passes without it) and `meta.json`. All were confirmed here from the deliverables alone (clean scratch worktree, "
            "61 existing tests green with the change). `first` = checks that fired when the change was first evaluated, `now` = with the "
            "current checker (the target property is always among them).\n\n"
            "| id | breaks | change | needs | first | now |\n|---|---|---|---|---|---|\n" + "\n".join(rows) + "\n")
print(len(rows), "rows")
