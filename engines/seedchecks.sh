#!/bin/bash
# usage: seedchecks.sh <patch.diff> [IDs...]  -> applies the patch to a scratch worktree (HEAD of /repo) and lists the checks that fire.
# Checks run in parallel after the first one has populated the fact cache.
VD="$(cd "$(dirname "$0")/.." && pwd)"
WT=${CB_SCRATCH:-/tmp/cbwt}
if [ ! -e "$WT/.git" ]; then git -C /repo worktree add --detach "$WT" HEAD >/dev/null 2>&1; fi
git -C "$WT" checkout -q --detach "$(git -C /repo rev-parse HEAD)" 2>/dev/null; git -C "$WT" checkout -q -- .
git -C "$WT" apply "$1" || { echo "patch does not apply"; exit 2; }
shift
IDS="${*:-C01 C02 C03 C04 C05 C06 C07 C08 C09 C10 C11 C12 C13 C14 C15 C16 C17 C18 C19 C20}"
TMP=$(mktemp -d)
first=$(echo $IDS | cut -d' ' -f1)
CB_REPO="$WT" $VD/check "$first" > "$TMP/$first.out" 2>&1; echo $? > "$TMP/$first.rc"
rest=$(echo $IDS | cut -d' ' -f2- -s)
if [ -n "$rest" ]; then
  echo $rest | tr ' ' '\n' | xargs -P 8 -I{} sh -c "CB_REPO='$WT' $VD/check {} > '$TMP/{}.out' 2>&1; echo \$? > '$TMP/{}.rc'"
fi
fired=""
for id in $IDS; do
  r=$(cat "$TMP/$id.rc")
  if [ "$r" != "0" ]; then fired="$fired $id"; echo "-- $id exit=$r"; grep -E "^(FAIL|ERROR|extract)" "$TMP/$id.out" | cut -c1-240 | head -${SEED_LINES:-3}; fi
done
rm -rf "$TMP"
git -C "$WT" checkout -q -- .
echo "FIRED:$fired"
