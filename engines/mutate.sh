#!/bin/bash
# usage: mutate.sh <patch.diff | -e 'sed-expr' file> -- <ID>...
# Applies one edit to a scratch worktree of /repo (HEAD + working tree changes are NOT copied: HEAD only),
# runs the given checks against it and prints their verdict lines.  Development aid, not a registered command.
set -u
WT=${CB_SCRATCH:-/tmp/cbwt}
if [ ! -d "$WT/.git" ] && [ ! -f "$WT/.git" ]; then
  git -C /repo worktree add --detach "$WT" HEAD >/dev/null 2>&1 || { echo "cannot create worktree"; exit 2; }
fi
git -C "$WT" checkout -q --detach "$(git -C /repo rev-parse HEAD)" 2>/dev/null
git -C "$WT" checkout -q -- . ; git -C "$WT" clean -fdq -e target
if [ "$1" = "-e" ]; then
  sed -i -E "$2" "$WT/$3"; shift 3
elif [ "$1" = "-py" ]; then
  python3 "$2" "$WT"; shift 2
else
  git -C "$WT" apply "$1" || { echo "patch does not apply"; exit 2; }; shift
fi
[ "$1" = "--" ] && shift
git -C "$WT" diff --stat | tail -1
rc=0
for id in "$@"; do
  out=$(CB_REPO="$WT" /verif/check "$id" 2>&1); r=$?
  echo "$id exit=$r"; [ $r = 2 ] && echo "$out" | tail -5; echo "$out" | grep -E "^(FAIL|VIOLATION|ERROR|extract)" | cut -c1-300 | head -${MUT_LINES:-6}
done
git -C "$WT" checkout -q -- .
