#!/bin/bash
# ./engines/benign.sh [name...] : applies each behaviour-preserving edit of /verif/benign (own edit scripts b*/r*.py and the
# refactors written by independent sub-agents, benign/agent/*.diff) to a scratch worktree and runs all 20 checks; every one of
# them must stay silent, except the refactors listed in benign/agent/KNOWN_LIMITS.txt (documented fail-closed limitations,
# DESIGN.md section 13).  Development / regression aid.
HERE="$(cd "$(dirname "$0")" && pwd)"; cd "$HERE/.."
WT=${CB_SCRATCH:-/tmp/cbwt}
if [ ! -e "$WT/.git" ]; then git -C /repo worktree add --detach "$WT" HEAD >/dev/null 2>&1; fi
names="$*"; [ -z "$names" ] && names="$(ls benign/*.py | xargs -n1 basename | sed 's/\.py$//') $(ls benign/agent/*.diff | xargs -n1 basename | sed 's/\.diff$//;s/^/agent\//')"
bad=0
CUR=$(mktemp /tmp/benign-cur.XXXXXX)
for n in $names; do
  case "$n" in
    agent/*)
      cp "benign/$n.diff" "$CUR" || { echo "$n: no such patch"; bad=1; continue; } ;;
    *)
      git -C "$WT" checkout -q --detach "$(git -C /repo rev-parse HEAD)" 2>/dev/null; git -C "$WT" checkout -q -- .
      python3 "benign/$n.py" "$WT" || { echo "$n: edit script failed"; bad=1; continue; }
      ( cd "$WT" && cargo build --offline -q 2>&1 | grep -E "^error" | head -3 )
      git -C "$WT" diff > "$CUR"
      git -C "$WT" checkout -q -- . ;;
  esac
  out=$(engines/seedchecks.sh "$CUR" 2>&1)
  fired=$(echo "$out" | grep '^FIRED:' | sed 's/FIRED: *//')
  if [ -z "$fired" ]; then echo "$n: silent (ok)"
  elif grep -q "^$(basename $n) " benign/agent/KNOWN_LIMITS.txt 2>/dev/null; then echo "$n: alarms in [$fired] (documented limitation)"
  else echo "$n: FALSE ALARM in [$fired]"; echo "$out" | grep -E "^FAIL" | cut -c1-260 | head -6; bad=1; fi
done
rm -f "$CUR"
exit $bad
