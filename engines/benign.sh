#!/bin/bash
# ./engines/benign.sh [name...] : applies each behaviour-preserving edit of /verif/benign to a scratch worktree and runs all 20 checks;
# every one of them must stay silent.  Development / regression aid.
HERE="$(cd "$(dirname "$0")" && pwd)"; cd "$HERE/.."
WT=${CB_SCRATCH:-/tmp/cbwt}
if [ ! -e "$WT/.git" ]; then git -C /repo worktree add --detach "$WT" HEAD >/dev/null 2>&1; fi
names="$*"; [ -z "$names" ] && names=$(ls benign/*.py | xargs -n1 basename | sed 's/\.py$//')
bad=0
for n in $names; do
  git -C "$WT" checkout -q --detach "$(git -C /repo rev-parse HEAD)" 2>/dev/null; git -C "$WT" checkout -q -- .
  python3 "benign/$n.py" "$WT" || { echo "$n: edit script failed"; bad=1; continue; }
  ( cd "$WT" && cargo build --offline -q 2>&1 | grep -E "^error" | head -3 )
  git -C "$WT" diff > /tmp/benign-cur.diff
  git -C "$WT" checkout -q -- .
  out=$(engines/seedchecks.sh /tmp/benign-cur.diff 2>&1)
  fired=$(echo "$out" | grep '^FIRED:' | sed 's/FIRED: *//')
  if [ -z "$fired" ]; then echo "$n: silent (ok)"; else echo "$n: FALSE ALARM in [$fired]"; echo "$out" | grep -E "^FAIL" | cut -c1-260 | head -6; bad=1; fi
done
rm -f /tmp/benign-cur.diff
exit $bad
