#!/bin/bash
# usage: witness.sh <repo_dir> [filter]   -> runs the doc-test witnesses against the callbag crate at <repo_dir>
# prints one line per witness doc-test ("ok" / "FAILED") and exits 0 iff all passed.
set -uo pipefail
REPO="${1:-/repo}"; FILTER="${2:-}"
HERE="$(cd "$(dirname "$0")" && pwd)"
WORK="${CBMIR_WORK:-$HERE/../.work}"
W="$WORK/witness"
mkdir -p "$W/src" "$W/.cargo"
cp "$HERE/witness/src/lib.rs" "$W/src/lib.rs"
cp "$REPO/Cargo.lock" "$W/Cargo.lock"
cat > "$W/Cargo.toml" <<EOT
[package]
name = "cbwitness"
version = "0.0.0"
edition = "2021"
publish = false
[dependencies]
callbag = { path = "$REPO" }
never = "0.1.0"
[workspace]
EOT
printf '[net]\noffline = true\n' > "$W/.cargo/config.toml"
cd "$W"
CARGO_NET_OFFLINE=true CARGO_TARGET_DIR="$WORK/witness-target" cargo +nightly test --doc --offline -- $FILTER 2>&1 | grep -E "^test |test result|error(\[|:)" 
exit ${PIPESTATUS[0]}
