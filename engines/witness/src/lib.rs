//! Type-level witnesses (DESIGN.md section 4.3). Each `compile_fail,E0xxx` doc-test is paired with a compiling twin
//! that differs only in the offending expression; they are run with `cargo +nightly test --doc` (nightly enforces the
//! error code). Nothing here runs callbag code: the compiling twins are `no_run`.

/// W1 - a sink cannot put `Data` on a talkback: `Source<T> = Callbag<Never, T>` receives `Message<Never, T>`.
///
/// ```compile_fail,E0308
/// use callbag::Message;
/// use never::Never;
/// let _m = Message::<Never, u8>::Data(0u8);
/// ```
///
/// twin (the sink-side type does admit data):
/// ```no_run
/// use callbag::Message;
/// use never::Never;
/// let _m = Message::<u8, Never>::Data(0u8);
/// ```
pub struct W1;

/// W2 - a handler must be `Fn`: it cannot mutate a captured variable, only interior-mutable cells.
///
/// ```compile_fail,E0525
/// use callbag::{Callbag, Message};
/// let mut n = 0usize;
/// let _c: Callbag<u8, u8> = (move |_m: Message<u8, u8>| { n += 1; }).into();
/// ```
///
/// twin:
/// ```no_run
/// use callbag::{Callbag, Message};
/// use std::sync::atomic::{AtomicUsize, Ordering};
/// let n = AtomicUsize::new(0);
/// let _c: Callbag<u8, u8> = (move |_m: Message<u8, u8>| { n.fetch_add(1, Ordering::AcqRel); }).into();
/// ```
pub struct W2;

/// W3 - a handler must be `Send + Sync`: every cell it captures is a thread-safe type.
///
/// ```compile_fail,E0277
/// use callbag::{Callbag, Message};
/// use std::{cell::Cell, rc::Rc};
/// let n = Rc::new(Cell::new(0u8));
/// let _c: Callbag<u8, u8> = (move |_m: Message<u8, u8>| { n.set(1); }).into();
/// ```
///
/// twin:
/// ```no_run
/// use callbag::{Callbag, Message};
/// use std::sync::{atomic::{AtomicUsize, Ordering}, Arc};
/// let n = Arc::new(AtomicUsize::new(0));
/// let _c: Callbag<u8, u8> = (move |_m: Message<u8, u8>| { n.store(1, Ordering::Release); }).into();
/// ```
pub struct W3;

/// W4 - `pipe!` is plain left-to-right application (type-directed: the stages only compose in that order).
///
/// three stages, right order:
/// ```no_run
/// let _x: u32 = callbag::pipe!(1u8, |x: u8| x as u16, |y: u16| y as u32);
/// ```
/// three stages, reversed:
/// ```compile_fail,E0308
/// let _x = callbag::pipe!(1u8, |y: u16| y as u32, |x: u8| x as u16);
/// ```
/// two stages and the trailing-comma forms:
/// ```no_run
/// let _a: u16 = callbag::pipe!(1u8, |x: u8| x as u16);
/// let _b: u16 = callbag::pipe!(1u8, |x: u8| x as u16,);
/// let _c: u32 = callbag::pipe!(1u8, |x: u8| x as u16, |y: u16| y as u32,);
/// let _d: u64 = callbag::pipe!(1u8, |x: u8| x as u16, |y: u16| y as u32, |z: u32| z as u64);
/// ```
/// two stages, argument and function swapped:
/// ```compile_fail,E0618
/// let _a = callbag::pipe!(|x: u8| x as u16, 1u8);
/// ```
/// four stages with the middle two swapped:
/// ```compile_fail,E0308
/// let _d = callbag::pipe!(1u8, |y: u16| y as u32, |x: u8| x as u16, |z: u32| z as u64);
/// ```
pub struct W4;

/// W5 - `Message::Error` carries an `Arc<dyn Error + Send + Sync>`: relaying the binding relays the same allocation.
///
/// ```compile_fail,E0308
/// use callbag::Message;
/// let _m = Message::<u8, u8>::Error(std::fmt::Error);
/// ```
///
/// twin:
/// ```no_run
/// use callbag::Message;
/// use std::sync::Arc;
/// let _m = Message::<u8, u8>::Error(Arc::new(std::fmt::Error));
/// ```
pub struct W5;

/// W6 - `combine!` keeps member order: the output tuple's i-th component has the i-th member's item type.
///
/// ```no_run
/// use callbag::{combine, from_iter, Source};
/// let _s: Source<(u8, u16)> = combine!(from_iter(vec![1u8]), from_iter(vec![2u16]));
/// let _t: Source<(u8, u16, u32)> = combine!(from_iter(vec![1u8]), from_iter(vec![2u16]), from_iter(vec![3u32]),);
/// ```
/// swapped:
/// ```compile_fail,E0308
/// use callbag::{combine, from_iter, Source};
/// let _s: Source<(u16, u8)> = combine!(from_iter(vec![1u8]), from_iter(vec![2u16]));
/// ```
pub struct W6;
