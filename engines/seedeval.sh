#!/bin/bash
# usage: seedeval.sh <seed-dir-name> <worktree> [checks...]
# Confirms a sub-agent's seeded change (suite green with it, demo fails with it / passes without it) in its scratch worktree,
# then runs the checks against the patched tree.  Development aid.
set -u
NAME="$1"; WT="$2"; shift 2
OUT=/tmp/seed-out/$NAME
[ -f "$OUT/patch.diff" ] || { echo "no patch"; exit 2; }
DEMO=$(ls "$WT"/tests/seeded_*.rs 2>/dev/null | head -1)
TESTNAME=$(basename "$DEMO" .rs)
FEAT="${SEED_FEATURES:-}"
cd "$WT"
echo "== patch"; git diff --stat -- src | tail -1
echo "== existing suite with the change"
cargo test --offline --no-fail-fast $FEAT 2>&1 | grep -E "^test result" | awk '{p+=$4; f+=$6} END {print "passed",p,"failed",f, "(includes the demo tests)"}'
echo "== demo with the change (must fail)"
cargo test --offline $FEAT --test "$TESTNAME" 2>&1 | grep -E "^test result|^test .*FAILED" | head -5
git stash push -q -- src
echo "== demo without the change (must pass)"
cargo test --offline $FEAT --test "$TESTNAME" 2>&1 | grep -E "^test result|^test .*FAILED" | head -5
git stash pop -q
[ -n "${SEED_SKIP_CHECKS:-}" ] && exit 0
echo "== checks against the patched tree"
IDS="${*:-C01 C02 C03 C04 C05 C06 C07 C08 C09 C10 C11 C12 C13 C14 C15 C16 C17 C18 C19 C20}"
fired=""
for id in $IDS; do
  out=$(CB_REPO="$WT" /verif/check "$id" 2>&1); r=$?
  if [ $r -ne 0 ]; then fired="$fired $id"; echo "-- $id exit=$r"; echo "$out" | grep -E "^(FAIL|ERROR|extract)" | cut -c1-260 | head -4; fi
done
echo "FIRED:$fired"
