#!/bin/bash
# usage: probe.sh <repo_dir> <out.json> : instantiates the macro-expansion probe crate against <repo_dir> and extracts its MIR facts
set -euo pipefail
REPO="$1"; OUT="$(realpath -m "$2")"
HERE="$(cd "$(dirname "$0")" && pwd)"
WORK="${CBMIR_WORK:-$HERE/../.work}"
P="$WORK/probe"
mkdir -p "$P/src" "$P/.cargo"
cp "$HERE/probe/src/lib.rs" "$P/src/lib.rs"
cp "$REPO/Cargo.lock" "$P/Cargo.lock"
cat > "$P/Cargo.toml" <<EOT
[package]
name = "cbprobe"
version = "0.0.0"
edition = "2021"
publish = false
[dependencies]
callbag = { path = "$REPO" }
[workspace]
EOT
printf '[net]\noffline = true\n' > "$P/.cargo/config.toml"
exec "$HERE/extract.sh" default "$OUT" "$P" cbprobe
