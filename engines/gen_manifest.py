#!/usr/bin/env python3
"""Generate /verif/MANIFEST.json from the property registry (so that the manifest always lists exactly what is implemented)."""
import json, os, sys
HERE = os.path.dirname(os.path.abspath(__file__))
sys.path.insert(0, os.path.join(HERE, "cbrules"))
import props

VERIF = os.path.abspath(os.path.join(HERE, ".."))
all_ids = [json.loads(l)["id"] for l in open(os.path.join(VERIF, "properties.jsonl"))]
TECH = {
    "C13": "static scope/escape analysis of interior-mutable allocations over MIR (rustc_private driver) + compile_fail witnesses",
    "C20": "static comparison of per-arm protocol skeletons between the two cfg(feature) builds (MIR, tau-closure of tracing code)",
}
DEFAULT_TECH = "repository-specific static analysis: MIR fact extraction (rustc_private driver) + path-sensitive lemma checks (placement, guard, order, relay) per handler arm"
NOTE = ("Trusted: the cbmir extractor (rustc nightly MIR at -Zmir-opt-level=0, resolved callees), the lemma-to-property argument written in "
        "DESIGN.md section 6, and the peer axioms listed in the evidence (A1-A8, DESIGN.md section 3). Nothing is executed; no interleavings "
        "or histories are enumerated. Known findings are matched by exact instance key (known_findings.txt).")
checks = []
for pid in all_ids:
    if pid not in props.REGISTRY:
        continue
    spec = props.REGISTRY[pid]
    checks.append({
        "property_id": pid,
        "quick_cmd": "./check %s --tier quick" % pid,
        "thorough_cmd": "./check %s --tier thorough" % pid,
        "evidence_file": "evidence/%s.json" % pid,
        "replay_cmd_template": "./check show {path}",
        "engine": "cbrules",
        "level_claimed": {"category": spec["level"], "text": spec["explanation"], "design_ref": "DESIGN.md section 6, %s" % pid},
        "level_note": NOTE,
        "technique": TECH.get(pid, DEFAULT_TECH),
    })
na = []
na_reasons = json.load(open(os.path.join(HERE, "not_applicable.json"))) if os.path.exists(os.path.join(HERE, "not_applicable.json")) else {}
for pid in all_ids:
    if pid not in props.REGISTRY:
        na.append({"property_id": pid, "reason": na_reasons.get(pid, "check not built yet (framework under construction; see DESIGN.md)")})
m = {
    "version": 1,
    "setup_cmd": "./setup.sh",
    "hooks": {"guard": "callbag_verif", "enable": "none: static analysis reads the unmodified sources; no hooks exist in /repo",
              "baseline_off_cmd": "cd /repo && cargo test --workspace --no-fail-fast --offline",
              "source_commits": [], "add_only": True},
    "engines": [
        {"name": "cbmir", "path": "engines/cbmir", "serves_properties": [c["property_id"] for c in checks],
         "kind_free_text": "rustc_private driver: dumps type-checked MIR of the callbag lib (both feature configurations) as JSON facts"},
        {"name": "cbrules", "path": "engines/cbrules", "serves_properties": [c["property_id"] for c in checks],
         "kind_free_text": "python3 rule engine: origins, capture linking, roles by flow, per-arm path sets, lemma catalogue, evidence"},
    ],
    "checks": checks,
    "notes": "Technique family: static analysis only. fix: commits in /repo: 540e7c7 (take), 6bb1e8f (combine), a60f9a9 and 79f21ea (merge). "
             "Known findings: known_findings.txt. Reproductions of the defects (documentation only): findings/repro.",
    "not_applicable": na,
}
json.dump(m, open(os.path.join(VERIF, "MANIFEST.json"), "w"), indent=1)
print("manifest: %d checks, %d not_applicable" % (len(checks), len(na)))
