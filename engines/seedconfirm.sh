#!/bin/bash
# usage: seedconfirm.sh <dir with patch.diff/demo.rs/meta.json> <scratch worktree> <PROPERTY-ID>
# Re-confirms a seeded change from its deliverables alone (not from whatever state the author's worktree is in):
# clean worktree -> apply patch -> suite (61 existing tests must pass) -> demo must fail -> revert patch -> demo must pass.
set -u
D="$1"; WT="$2"; ID="$3"; FEAT="${SEED_FEATURES:-}"
cd "$WT" || exit 2
git checkout -q -- . ; rm -f tests/seeded_*.rs
git apply "$D/patch.diff" || { echo "patch does not apply"; exit 2; }
cp "$D/demo.rs" "tests/seeded_$ID.rs"
echo "== patch: $(git diff --stat -- src | tail -1)"
echo "== builds"; cargo build --offline -q 2>&1 | grep -E "^error" | head -2; cargo build --offline -q --features tracing 2>&1 | grep -E "^error" | head -2
echo "== suite with the change"
cargo test --offline --no-fail-fast $FEAT 2>&1 | grep -E "^test result|Running" | awk '/Running/ {name=$0} /^test result/ {print name " :: " $0}' | grep -v "seeded_" | awk -F'::' '{print $NF}' | awk '{p+=$4; f+=$6} END {print "existing tests: passed",p,"failed",f}'
echo "== demo with the change (must fail)"
cargo test --offline $FEAT --test "seeded_$ID" 2>&1 | grep -E "^test result" | head -2
git apply -R "$D/patch.diff"
echo "== demo without the change (must pass)"
cargo test --offline $FEAT --test "seeded_$ID" 2>&1 | grep -E "^test result" | head -2
git checkout -q -- . 
