#!/bin/bash
# usage: extract.sh <config: default|tracing> <out.json> [repo_dir] [crate_name]
# Runs the cbmir driver under cargo +nightly check on the repo's lib crate, with the real build flags.
set -euo pipefail
CFG="$1"; OUT="$(realpath -m "$2")"; REPO="${3:-/repo}"; CRATE="${4:-callbag}"
HERE="$(cd "$(dirname "$0")" && pwd)"
WORK="${CBMIR_WORK:-$HERE/../.work}"
mkdir -p "$WORK"
DRV="$HERE/cbmir/target/release/cbmir"
[ -x "$DRV" ] || { echo "extract: driver not built ($DRV); run ./setup.sh" >&2; exit 2; }
TD="$WORK/target-$CFG"
FEAT=""
[ "$CFG" = "tracing" ] && FEAT="--features tracing"
# cargo's freshness cache would skip the wrapper: forget the lib's fingerprints
rm -rf "$TD"/debug/.fingerprint/"$CRATE"-* 2>/dev/null || true
rm -f "$OUT"
export LD_LIBRARY_PATH="$(rustc +nightly --print sysroot)/lib${LD_LIBRARY_PATH:+:$LD_LIBRARY_PATH}"
cd "$REPO"
if ! CBMIR_CRATE="$CRATE" CBMIR_ROOT="$REPO" CBMIR_OUT="$OUT" CARGO_NET_OFFLINE=true \
   RUSTFLAGS="-Zmir-opt-level=0 -Awarnings" RUSTC_WORKSPACE_WRAPPER="$DRV" CARGO_TARGET_DIR="$TD" \
   cargo +nightly check --offline --lib $FEAT >"$OUT.log" 2>&1; then
  echo "extract: cargo check failed (config $CFG); see $OUT.log" >&2
  tail -30 "$OUT.log" >&2
  exit 2
fi
[ -s "$OUT" ] || { echo "extract: driver produced no fact file for config $CFG" >&2; exit 2; }
