// cbmir: rustc_private driver that dumps the type-checked MIR of one crate as JSON facts.
// It contains no property logic (see /verif/DESIGN.md section 4.1).
//
// Usage (as RUSTC_WORKSPACE_WRAPPER): cbmir <rustc> <rustc args...>
// Env: CBMIR_CRATE  crate name to dump (default "callbag")
//      CBMIR_OUT    output file (one JSON document, written once per process)
//      CBMIR_ROOT   source root used to shorten file names (default /repo)
#![feature(rustc_private)]

extern crate rustc_abi;
extern crate rustc_driver;
extern crate rustc_hir;
extern crate rustc_interface;
extern crate rustc_middle;
extern crate rustc_session;
extern crate rustc_span;

use rustc_driver::{Callbacks, Compilation};
use rustc_hir::def::DefKind;
use rustc_hir::def_id::{DefId, LocalDefId, LOCAL_CRATE};
use rustc_middle::mir::{
    AggregateKind, BasicBlockData, Body, CastKind, Const, ConstOperand, Operand, Place,
    ProjectionElem, Rvalue, StatementKind, TerminatorKind,
};
use rustc_middle::ty::print::with_no_trimmed_paths;
use rustc_middle::ty::{self, Ty, TyCtxt};
use rustc_span::Span;
use std::collections::HashSet;
use std::fmt::Write as _;

// ---------------------------------------------------------------- JSON helpers

fn esc(s: &str) -> String {
    let mut o = String::with_capacity(s.len() + 2);
    o.push('"');
    for c in s.chars() {
        match c {
            '"' => o.push_str("\\\""),
            '\\' => o.push_str("\\\\"),
            '\n' => o.push_str("\\n"),
            '\r' => o.push_str("\\r"),
            '\t' => o.push_str("\\t"),
            c if (c as u32) < 0x20 => {
                let _ = write!(o, "\\u{:04x}", c as u32);
            }
            c => o.push(c),
        }
    }
    o.push('"');
    o
}

fn arr(items: Vec<String>) -> String {
    format!("[{}]", items.join(","))
}

fn obj(items: Vec<(&str, String)>) -> String {
    let v: Vec<String> = items.into_iter().map(|(k, v)| format!("{}:{}", esc(k), v)).collect();
    format!("{{{}}}", v.join(","))
}

// ---------------------------------------------------------------- context

struct Cx<'tcx> {
    tcx: TyCtxt<'tcx>,
    root: String,
    cur_body: std::cell::Cell<Option<&'tcx Body<'tcx>>>,
}

impl<'tcx> Cx<'tcx> {
    fn ty_str(&self, t: Ty<'tcx>) -> String {
        with_no_trimmed_paths!(format!("{}", t))
    }

    fn path(&self, d: DefId) -> String {
        with_no_trimmed_paths!(self.tcx.def_path_str(d))
    }

    fn short_file(&self, name: String) -> String {
        if let Some(rest) = name.strip_prefix(&self.root) {
            return rest.trim_start_matches('/').to_string();
        }
        if let Some(i) = name.find("/registry/src/") {
            let rest = &name[i + "/registry/src/".len()..];
            // index.crates.io-xxxx/<crate-version>/...
            if let Some(j) = rest.find('/') {
                return format!("dep:{}", &rest[j + 1..]);
            }
        }
        if let Some(i) = name.find("/rustlib/src/rust/") {
            return format!("std:{}", &name[i + "/rustlib/src/rust/".len()..]);
        }
        name
    }

    /// "file:line:col" of the span's own location (where the tokens were written).
    fn loc(&self, sp: Span) -> String {
        if sp.is_dummy() {
            return "?".to_string();
        }
        let sm = self.tcx.sess.source_map();
        let lo = sm.lookup_char_pos(sp.lo());
        let file = self.short_file(format!("{}", lo.file.name.prefer_local_unconditionally()));
        format!("{}:{}:{}", file, lo.line, lo.col.0 + 1)
    }

    fn span_json(&self, sp: Span) -> String {
        let mut items = vec![("sp", esc(&self.loc(sp)))];
        if sp.from_expansion() {
            items.push(("cs", esc(&self.loc(sp.source_callsite()))));
            // macro backtrace: names of the macros, innermost first, with the file of the definition
            let mut bt = vec![];
            for ed in sp.macro_backtrace().take(8) {
                let name = match ed.kind {
                    rustc_span::ExpnKind::Macro(_, n) => n.to_string(),
                    rustc_span::ExpnKind::Desugaring(d) => format!("desugar:{:?}", d),
                    rustc_span::ExpnKind::AstPass(_) => "astpass".to_string(),
                    rustc_span::ExpnKind::Root => "root".to_string(),
                };
                let df = self.loc(ed.def_site);
                let dfile = df.split(':').next().unwrap_or("?").to_string();
                bt.push(esc(&format!("{}@{}", name, dfile)));
            }
            items.push(("bt", arr(bt)));
        }
        obj(items)
    }

    // ---------------- type flags

    fn is_message(&self, t: Ty<'tcx>) -> bool {
        if let ty::Adt(adt, _) = t.kind() {
            let p = self.path(adt.did());
            return p.ends_with("core::Message");
        }
        false
    }

    fn is_callbag(&self, t: Ty<'tcx>) -> bool {
        if let ty::Adt(adt, _) = t.kind() {
            let p = self.path(adt.did());
            return p.ends_with("core::Callbag");
        }
        false
    }

    /// Does the type, after peeling pointers / containers, contain an UnsafeCell?
    /// Type parameters and trait objects are ignored (they are the user's).
    fn deep_interior_mut(&self, t: Ty<'tcx>, seen: &mut HashSet<Ty<'tcx>>, depth: usize) -> bool {
        if depth > 24 || !seen.insert(t) {
            return false;
        }
        match t.kind() {
            ty::Adt(adt, args) => {
                if adt.is_unsafe_cell() {
                    return true;
                }
                {
                    // reference-counted pointers: only the pointee counts, not the counters
                    let p = self.path(adt.did());
                    if p == "alloc::sync::Arc" || p == "std::sync::Arc" || p == "alloc::rc::Rc" || p == "std::rc::Rc"
                        || p == "alloc::sync::Weak" || p == "std::sync::Weak" {
                        return self.deep_interior_mut(args.type_at(0), seen, depth + 1);
                    }
                }
                for a in args.iter() {
                    if let Some(t2) = a.as_type() {
                        if self.deep_interior_mut(t2, seen, depth + 1) {
                            return true;
                        }
                    }
                }
                if adt.is_union() {
                    return false;
                }
                for v in adt.variants() {
                    for f in &v.fields {
                        let ft = f.ty(self.tcx, args);
                        if self.deep_interior_mut(ft, seen, depth + 1) {
                            return true;
                        }
                    }
                }
                false
            }
            ty::Ref(_, t2, _) | ty::Slice(t2) | ty::Array(t2, _) => {
                self.deep_interior_mut(*t2, seen, depth + 1)
            }
            ty::Tuple(ts) => ts.iter().any(|t2| self.deep_interior_mut(t2, seen, depth + 1)),
            ty::Closure(_, args) => {
                args.as_closure().upvar_tys().iter().any(|t2| self.deep_interior_mut(t2, seen, depth + 1))
            }
            ty::Coroutine(_, args) => {
                args.as_coroutine().upvar_tys().iter().any(|t2| self.deep_interior_mut(t2, seen, depth + 1))
            }
            _ => false,
        }
    }

    fn ty_flags(&self, t: Ty<'tcx>) -> String {
        let mut f = vec![];
        let peeled = self.peel(t);
        if self.is_message(peeled) {
            f.push(esc("msg"));
        }
        if self.is_callbag(peeled) {
            f.push(esc("callbag"));
        }
        if self.deep_interior_mut(t, &mut HashSet::new(), 0) {
            f.push(esc("imut"));
        }
        match peeled.kind() {
            ty::Param(_) => f.push(esc("param")),
            ty::Closure(..) => f.push(esc("closure")),
            ty::Coroutine(..) => f.push(esc("coroutine")),
            ty::Dynamic(..) => f.push(esc("dyn")),
            _ => {}
        }
        arr(f)
    }

    /// Peel references, Box, Arc, Rc down to the pointee.
    fn peel(&self, mut t: Ty<'tcx>) -> Ty<'tcx> {
        for _ in 0..8 {
            match t.kind() {
                ty::Ref(_, t2, _) | ty::RawPtr(t2, _) => t = *t2,
                ty::Adt(adt, args) => {
                    let p = self.path(adt.did());
                    if adt.is_box() || p == "alloc::sync::Arc" || p == "std::sync::Arc" || p == "alloc::rc::Rc" {
                        t = args.type_at(0);
                    } else {
                        return t;
                    }
                }
                _ => return t,
            }
        }
        t
    }

    // ---------------- places / operands

    fn place(&self, p: &Place<'tcx>) -> String {
        let mut proj = vec![];
        for e in p.projection.iter() {
            proj.push(match e {
                ProjectionElem::Deref => esc("*"),
                ProjectionElem::Field(f, _) => format!("[\"f\",{}]", f.as_usize()),
                ProjectionElem::Index(l) => format!("[\"i\",{}]", l.as_usize()),
                ProjectionElem::ConstantIndex { offset, from_end, .. } => {
                    format!("[\"ci\",{},{}]", offset, from_end)
                }
                ProjectionElem::Subslice { from, to, from_end } => {
                    format!("[\"ss\",{},{},{}]", from, to, from_end)
                }
                ProjectionElem::Downcast(name, idx) => format!(
                    "[\"d\",{},{}]",
                    esc(&name.map(|s| s.to_string()).unwrap_or_default()),
                    idx.as_usize()
                ),
                ProjectionElem::OpaqueCast(_) => esc("opaque"),
                ProjectionElem::UnwrapUnsafeBinder(_) => esc("unbind"),
            });
        }
        format!("{{\"l\":{},\"p\":{}}}", p.local.as_usize(), arr(proj))
    }

    fn constant(&self, c: &ConstOperand<'tcx>, owner: LocalDefId) -> String {
        let ty = c.const_.ty();
        let mut items = vec![("ty", esc(&self.ty_str(ty)))];
        let disp = with_no_trimmed_paths!(format!("{}", c.const_));
        items.push(("v", esc(&disp)));
        match ty.kind() {
            ty::FnDef(d, _) => items.push(("fn", esc(&self.path(*d)))),
            ty::Closure(d, _) => items.push(("closure", esc(&self.path(*d)))),
            ty::Int(_) | ty::Uint(_) | ty::Bool | ty::Char => {
                let env = ty::TypingEnv::post_analysis(self.tcx, owner);
                let val = match c.const_ {
                    Const::Val(..) => c.const_.try_eval_scalar_int(self.tcx, env),
                    Const::Unevaluated(uv, _) => {
                        if uv.promoted.is_some() {
                            None
                        } else if uv.args.is_empty() || !uv.args.iter().any(|a| a.as_type().map_or(false, |t| matches!(t.kind(), ty::Param(_)))) {
                            c.const_.try_eval_scalar_int(self.tcx, env)
                        } else if matches!(self.tcx.def_kind(uv.def), DefKind::Const { .. }) {
                            // a const item nested in a generic fn cannot use the generics: evaluate it polymorphically
                            match self.tcx.const_eval_poly(uv.def) {
                                Ok(v) => v.try_to_scalar_int(),
                                Err(_) => None,
                            }
                        } else {
                            None
                        }
                    }
                    _ => None,
                };
                if let Some(si) = val {
                    let bits: u128 = si.to_bits(si.size());
                    items.push(("int", format!("{}", bits)));
                }
            }
            _ => {}
        }
        if let Const::Unevaluated(uv, _) = c.const_ {
            items.push(("uneval", esc(&self.path(uv.def))));
            if let Some(p) = uv.promoted {
                items.push(("promoted", format!("{}", p.as_usize())));
            }
        }
        obj(items)
    }

    fn operand(&self, o: &Operand<'tcx>, owner: LocalDefId) -> String {
        match o {
            Operand::Copy(p) => format!("{{\"copy\":{}}}", self.place(p)),
            Operand::Move(p) => format!("{{\"move\":{}}}", self.place(p)),
            Operand::Constant(c) => format!("{{\"const\":{}}}", self.constant(c, owner)),
            Operand::RuntimeChecks(_) => "{\"const\":{\"ty\":\"bool\",\"v\":\"runtime_checks\"}}".to_string(),
        }
    }

    fn rvalue(&self, rv: &Rvalue<'tcx>, owner: LocalDefId) -> String {
        match rv {
            Rvalue::Use(o, _) => obj(vec![("k", esc("use")), ("o", self.operand(o, owner))]),
            Rvalue::Repeat(o, _) => obj(vec![("k", esc("repeat")), ("o", self.operand(o, owner))]),
            Rvalue::Ref(_, bk, p) => obj(vec![
                ("k", esc("ref")),
                ("mut", format!("{}", matches!(bk, rustc_middle::mir::BorrowKind::Mut { .. }))),
                ("p", self.place(p)),
            ]),
            Rvalue::ThreadLocalRef(d) => obj(vec![("k", esc("tlref")), ("def", esc(&self.path(*d)))]),
            Rvalue::RawPtr(_, p) => obj(vec![("k", esc("rawptr")), ("p", self.place(p))]),
            Rvalue::Cast(ck, o, t) => obj(vec![
                ("k", esc("cast")),
                ("ck", esc(&match ck {
                    CastKind::PointerCoercion(pc, _) => format!("ptrcoerce:{:?}", pc),
                    other => format!("{:?}", other),
                })),
                ("o", self.operand(o, owner)),
                ("ty", esc(&self.ty_str(*t))),
            ]),
            Rvalue::BinaryOp(op, ab) => obj(vec![
                ("k", esc("binop")),
                ("op", esc(&format!("{:?}", op))),
                ("a", self.operand(&ab.0, owner)),
                ("b", self.operand(&ab.1, owner)),
            ]),
            Rvalue::UnaryOp(op, o) => obj(vec![
                ("k", esc("unop")),
                ("op", esc(&format!("{:?}", op))),
                ("o", self.operand(o, owner)),
            ]),
            Rvalue::Discriminant(p) => {
                let mut items = vec![("k", esc("discr")), ("p", self.place(p))];
                if let Some(b) = self.cur_body.get() {
                    let pty = p.ty(&b.local_decls, self.tcx).ty;
                    if let ty::Adt(adt, _) = pty.kind() {
                        if adt.is_enum() {
                            items.push(("nvar", format!("{}", adt.variants().len())));
                        }
                    }
                }
                obj(items)
            }
            Rvalue::Aggregate(kind, ops) => {
                let ops_s: Vec<String> = ops.iter().map(|o| self.operand(o, owner)).collect();
                let mut items = vec![("k", esc("agg"))];
                match &**kind {
                    AggregateKind::Array(_) => items.push(("ak", esc("array"))),
                    AggregateKind::Tuple => items.push(("ak", esc("tuple"))),
                    AggregateKind::Adt(d, vi, _, _, _) => {
                        items.push(("ak", esc("adt")));
                        items.push(("adt", esc(&self.path(*d))));
                        let adt = self.tcx.adt_def(*d);
                        items.push(("variant", esc(adt.variant(*vi).name.as_str())));
                        items.push(("vi", format!("{}", vi.as_usize())));
                    }
                    AggregateKind::Closure(d, _) => {
                        items.push(("ak", esc("closure")));
                        items.push(("def", esc(&self.path(*d))));
                    }
                    AggregateKind::Coroutine(d, _) => {
                        items.push(("ak", esc("coroutine")));
                        items.push(("def", esc(&self.path(*d))));
                    }
                    AggregateKind::CoroutineClosure(d, _) => {
                        items.push(("ak", esc("coroutine_closure")));
                        items.push(("def", esc(&self.path(*d))));
                    }
                    AggregateKind::RawPtr(..) => items.push(("ak", esc("rawptr"))),
                }
                items.push(("ops", arr(ops_s)));
                obj(items)
            }
            Rvalue::CopyForDeref(p) => obj(vec![("k", esc("use")), ("o", format!("{{\"copy\":{}}}", self.place(p)))]),
            Rvalue::WrapUnsafeBinder(o, _) => obj(vec![("k", esc("use")), ("o", self.operand(o, owner))]),
        }
    }

    // ---------------- calls

    fn callee(&self, func: &Operand<'tcx>, owner: LocalDefId, body: &Body<'tcx>) -> String {
        let fty = func.ty(&body.local_decls, self.tcx);
        let mut items: Vec<(&str, String)> = vec![];
        match *fty.kind() {
            ty::FnDef(def_id, args) => {
                items.push(("def", esc(&self.path(def_id))));
                items.push(("crate", esc(self.tcx.crate_name(def_id.krate).as_str())));
                let ga: Vec<String> = args.iter().map(|a| esc(&with_no_trimmed_paths!(format!("{}", a)))).collect();
                items.push(("ga", arr(ga)));
                if let Some(tr) = self.tcx.trait_of_assoc(def_id) {
                    items.push(("trait", esc(&self.path(tr))));
                } else if let Some(imp) = self.tcx.inherent_impl_of_assoc(def_id) {
                    let st = self.tcx.type_of(imp).instantiate_identity().skip_norm_wip();
                    if let ty::Adt(adt, _) = st.kind() {
                        items.push(("impl_of", esc(&self.path(adt.did()))));
                    } else {
                        items.push(("impl_of", esc(&self.ty_str(st))));
                    }
                }
                if args.len() > 0 {
                    if let Some(self_ty) = args[0].as_type() {
                        let peeled = self.peel(self_ty);
                        let sk = match peeled.kind() {
                            ty::Param(_) => "param",
                            ty::Closure(..) => "closure",
                            ty::Coroutine(..) => "coroutine",
                            ty::Dynamic(..) => "dyn",
                            ty::Adt(..) => "adt",
                            ty::FnPtr(..) => "fnptr",
                            ty::FnDef(..) => "fndef",
                            _ => "other",
                        };
                        items.push(("self_kind", esc(sk)));
                        if let ty::Closure(d, _) = peeled.kind() {
                            items.push(("self_closure", esc(&self.path(*d))));
                        }
                        // message call: Fn*::call* whose argument tuple is (Message<..>,)
                        if args.len() > 1 {
                            if let Some(at) = args[1].as_type() {
                                if let ty::Tuple(ts) = at.kind() {
                                    if ts.len() == 1 && self.is_message(ts[0]) {
                                        items.push(("msg_call", "true".to_string()));
                                    }
                                }
                            }
                        }
                    }
                }
                let env = ty::TypingEnv::post_analysis(self.tcx, owner);
                let resolvable = matches!(self.tcx.def_kind(def_id), DefKind::Fn | DefKind::AssocFn | DefKind::Ctor(..));
                if resolvable && !matches!(self.tcx.def_kind(def_id), DefKind::Ctor(..)) {
                    if let Ok(Some(inst)) = ty::Instance::try_resolve(self.tcx, env, def_id, args) {
                        items.push(("res", esc(&self.path(inst.def_id()))));
                        let kind = match inst.def {
                            ty::InstanceKind::Item(_) => "item",
                            ty::InstanceKind::Virtual(..) => "virtual",
                            ty::InstanceKind::Intrinsic(_) => "intrinsic",
                            ty::InstanceKind::ClosureOnceShim { .. } => "closure_once_shim",
                            ty::InstanceKind::FnPtrShim(..) => "fnptr_shim",
                            ty::InstanceKind::CloneShim(..) => "clone_shim",
                            ty::InstanceKind::DropGlue(..) => "drop_glue",
                            _ => "other",
                        };
                        items.push(("res_kind", esc(kind)));
                        items.push(("res_local", format!("{}", inst.def_id().is_local())));
                    }
                }
            }
            _ => {
                items.push(("indirect", self.operand(func, owner)));
                items.push(("ty", esc(&self.ty_str(fty))));
            }
        }
        obj(items)
    }

    fn block(&self, bb: usize, data: &BasicBlockData<'tcx>, owner: LocalDefId, body: &Body<'tcx>) -> String {
        let mut stmts = vec![];
        for st in &data.statements {
            match &st.kind {
                StatementKind::Assign(b) => {
                    let (p, rv) = &**b;
                    stmts.push(obj(vec![
                        ("lhs", self.place(p)),
                        ("rv", self.rvalue(rv, owner)),
                        ("s", self.span_json(st.source_info.span)),
                    ]));
                }
                StatementKind::SetDiscriminant { place, variant_index } => {
                    stmts.push(obj(vec![
                        ("lhs", self.place(place)),
                        ("rv", obj(vec![("k", esc("setdiscr")), ("vi", format!("{}", variant_index.as_usize()))])),
                        ("s", self.span_json(st.source_info.span)),
                    ]));
                }
                StatementKind::Intrinsic(_) => {
                    stmts.push(obj(vec![
                        ("rv", obj(vec![("k", esc("intrinsic"))])),
                        ("s", self.span_json(st.source_info.span)),
                    ]));
                }
                _ => {}
            }
        }
        let term = data.terminator();
        let sp = self.span_json(term.source_info.span);
        let t = match &term.kind {
            TerminatorKind::Goto { target } => obj(vec![("k", esc("goto")), ("succ", arr(vec![format!("{}", target.as_usize())]))]),
            TerminatorKind::SwitchInt { discr, targets } => {
                let mut ts = vec![];
                let mut succ = vec![];
                for (v, b) in targets.iter() {
                    ts.push(format!("[{},{}]", v, b.as_usize()));
                    succ.push(format!("{}", b.as_usize()));
                }
                succ.push(format!("{}", targets.otherwise().as_usize()));
                obj(vec![
                    ("k", esc("switch")),
                    ("discr", self.operand(discr, owner)),
                    ("targets", arr(ts)),
                    ("otherwise", format!("{}", targets.otherwise().as_usize())),
                    ("succ", arr(succ)),
                ])
            }
            TerminatorKind::UnwindResume => obj(vec![("k", esc("resume")), ("succ", arr(vec![]))]),
            TerminatorKind::UnwindTerminate(_) => obj(vec![("k", esc("abort")), ("succ", arr(vec![]))]),
            TerminatorKind::Return => obj(vec![("k", esc("return")), ("succ", arr(vec![]))]),
            TerminatorKind::Unreachable => obj(vec![("k", esc("unreachable")), ("succ", arr(vec![]))]),
            TerminatorKind::Drop { place, target, .. } => obj(vec![
                ("k", esc("drop")),
                ("p", self.place(place)),
                ("succ", arr(vec![format!("{}", target.as_usize())])),
            ]),
            TerminatorKind::Call { func, args, destination, target, .. } => {
                let a: Vec<String> = args.iter().map(|x| self.operand(&x.node, owner)).collect();
                let succ = match target {
                    Some(t) => vec![format!("{}", t.as_usize())],
                    None => vec![],
                };
                obj(vec![
                    ("k", esc("call")),
                    ("callee", self.callee(func, owner, body)),
                    ("args", arr(a)),
                    ("dest", self.place(destination)),
                    ("succ", arr(succ)),
                ])
            }
            TerminatorKind::TailCall { func, args, .. } => {
                let a: Vec<String> = args.iter().map(|x| self.operand(&x.node, owner)).collect();
                obj(vec![
                    ("k", esc("tailcall")),
                    ("callee", self.callee(func, owner, body)),
                    ("args", arr(a)),
                    ("succ", arr(vec![])),
                ])
            }
            TerminatorKind::Assert { cond, expected, msg, target, .. } => {
                let kind = format!("{:?}", std::mem::discriminant(&**msg));
                let _ = kind;
                let m = match &**msg {
                    rustc_middle::mir::AssertKind::BoundsCheck { .. } => "bounds".to_string(),
                    rustc_middle::mir::AssertKind::Overflow(op, ..) => format!("overflow:{:?}", op),
                    rustc_middle::mir::AssertKind::OverflowNeg(_) => "overflow:Neg".to_string(),
                    rustc_middle::mir::AssertKind::DivisionByZero(_) => "div0".to_string(),
                    rustc_middle::mir::AssertKind::RemainderByZero(_) => "rem0".to_string(),
                    rustc_middle::mir::AssertKind::ResumedAfterReturn(_) => "resumed_after_return".to_string(),
                    rustc_middle::mir::AssertKind::ResumedAfterPanic(_) => "resumed_after_panic".to_string(),
                    rustc_middle::mir::AssertKind::ResumedAfterDrop(_) => "resumed_after_drop".to_string(),
                    rustc_middle::mir::AssertKind::MisalignedPointerDereference { .. } => "misaligned".to_string(),
                    rustc_middle::mir::AssertKind::NullPointerDereference => "nullptr".to_string(),
                    rustc_middle::mir::AssertKind::InvalidEnumConstruction(_) => "invalid_enum".to_string(),
                };
                obj(vec![
                    ("k", esc("assert")),
                    ("cond", self.operand(cond, owner)),
                    ("expected", format!("{}", expected)),
                    ("msg", esc(&m)),
                    ("succ", arr(vec![format!("{}", target.as_usize())])),
                ])
            }
            TerminatorKind::Yield { value, resume, resume_arg, .. } => obj(vec![
                ("k", esc("yield")),
                ("value", self.operand(value, owner)),
                ("resume_arg", self.place(resume_arg)),
                ("succ", arr(vec![format!("{}", resume.as_usize())])),
            ]),
            TerminatorKind::CoroutineDrop => obj(vec![("k", esc("coroutine_drop")), ("succ", arr(vec![]))]),
            TerminatorKind::FalseEdge { real_target, .. } => obj(vec![("k", esc("goto")), ("succ", arr(vec![format!("{}", real_target.as_usize())]))]),
            TerminatorKind::FalseUnwind { real_target, .. } => obj(vec![("k", esc("goto")), ("succ", arr(vec![format!("{}", real_target.as_usize())]))]),
            TerminatorKind::InlineAsm { targets, .. } => {
                let succ: Vec<String> = targets.iter().map(|t| format!("{}", t.as_usize())).collect();
                obj(vec![("k", esc("asm")), ("succ", arr(succ))])
            }
        };
        obj(vec![
            ("id", format!("{}", bb)),
            ("cleanup", format!("{}", data.is_cleanup)),
            ("stmts", arr(stmts)),
            ("term", t),
            ("ts", sp),
        ])
    }

    fn body(&self, did: LocalDefId) -> Option<String> {
        let tcx = self.tcx;
        let kind = tcx.def_kind(did);
        if !matches!(kind, DefKind::Fn | DefKind::AssocFn | DefKind::Closure) {
            return None;
        }
        let body: &'tcx Body<'tcx> = tcx.optimized_mir(did.to_def_id());
        self.cur_body.set(Some(body));
        let def_span = tcx.def_span(did);
        let mut items: Vec<(&str, String)> = vec![];
        items.push(("id", esc(&self.path(did.to_def_id()))));
        let is_cor = tcx.is_coroutine(did.to_def_id());
        items.push((
            "kind",
            esc(match kind {
                DefKind::Closure if is_cor => "coroutine",
                DefKind::Closure => "closure",
                _ => "fn",
            }),
        ));
        let parent = tcx.local_parent(did);
        items.push(("parent", esc(&self.path(parent.to_def_id()))));
        items.push(("span", self.span_json(def_span)));
        {
            let sm = tcx.sess.source_map();
            let hi = sm.lookup_char_pos(def_span.hi());
            items.push(("span_hi", esc(&format!("{}:{}", hi.line, hi.col.0 + 1))));
        }
        items.push(("arg_count", format!("{}", body.arg_count)));
        // can code outside the crate name this item? (a private helper that is inlined at every call site has no other callers)
        let exported = matches!(kind, DefKind::Fn | DefKind::AssocFn) && tcx.effective_visibilities(()).is_reachable(did);
        items.push(("exported", format!("{}", exported)));
        // generics of the nearest fn-like item
        let typeck_root = tcx.typeck_root_def_id(did.to_def_id());
        let gens = tcx.generics_of(typeck_root);
        let mut gp = vec![];
        for i in 0..gens.count() {
            let p = gens.param_at(i, tcx);
            gp.push(esc(p.name.as_str()));
        }
        items.push(("generics", arr(gp)));
        // predicates (bounds) of the root, as strings: used to recognise Fn-bounded parameters
        let preds = tcx.predicates_of(typeck_root).instantiate_identity(tcx);
        let mut ps = vec![];
        for (p, _) in preds.predicates.iter().zip(preds.spans.iter()) {
            ps.push(esc(&with_no_trimmed_paths!(format!("{}", p.skip_norm_wip()))));
        }
        items.push(("bounds", arr(ps)));
        // captures
        if matches!(kind, DefKind::Closure) {
            let mut caps = vec![];
            for (i, c) in tcx.closure_captures(did).iter().enumerate() {
                let by_ref = matches!(c.info.capture_kind, ty::UpvarCapture::ByRef(_));
                caps.push(obj(vec![
                    ("idx", format!("{}", i)),
                    ("name", esc(&c.to_symbol().to_string())),
                    ("by_ref", format!("{}", by_ref)),
                    ("ty", esc(&self.ty_str(c.place.ty()))),
                    ("flags", self.ty_flags(c.place.ty())),
                ]));
            }
            items.push(("captures", arr(caps)));
        }
        // locals
        let mut locals = vec![];
        for (l, d) in body.local_decls.iter_enumerated() {
            locals.push(obj(vec![
                ("l", format!("{}", l.as_usize())),
                ("ty", esc(&self.ty_str(d.ty))),
                ("flags", self.ty_flags(d.ty)),
            ]));
        }
        items.push(("locals", arr(locals)));
        // debug names
        let mut dbg = vec![];
        for v in &body.var_debug_info {
            let val = match &v.value {
                rustc_middle::mir::VarDebugInfoContents::Place(p) => self.place(p),
                rustc_middle::mir::VarDebugInfoContents::Const(c) => format!("{{\"const\":{}}}", self.constant(c, did)),
            };
            dbg.push(obj(vec![
                ("name", esc(v.name.as_str())),
                ("val", val),
                ("s", esc(&self.loc(v.source_info.span))),
            ]));
        }
        items.push(("debug", arr(dbg)));
        // coroutine layout info: saved local types
        if is_cor {
            if let Some(layout) = body.coroutine_layout_raw() {
                let mut fts = vec![];
                for (i, ft) in layout.field_tys.iter_enumerated() {
                    fts.push(obj(vec![
                        ("i", format!("{}", i.as_usize())),
                        ("ty", esc(&self.ty_str(ft.ty))),
                        ("flags", self.ty_flags(ft.ty)),
                    ]));
                }
                items.push(("saved", arr(fts)));
                let mut vfs = vec![];
                for (vi, fields) in layout.variant_fields.iter_enumerated() {
                    let fs: Vec<String> = fields.iter().map(|f| format!("{}", f.as_usize())).collect();
                    vfs.push(format!("[{},{}]", vi.as_usize(), arr(fs)));
                }
                items.push(("variant_fields", arr(vfs)));
                let mut names = vec![];
                for (i, n) in layout.field_names.iter_enumerated() {
                    names.push(format!("[{},{}]", i.as_usize(), esc(&n.map(|s| s.to_string()).unwrap_or_default())));
                }
                items.push(("saved_names", arr(names)));
            }
        }
        let mut blocks = vec![];
        for (bb, data) in body.basic_blocks.iter_enumerated() {
            blocks.push(self.block(bb.as_usize(), data, did, body));
        }
        items.push(("blocks", arr(blocks)));
        Some(obj(items))
    }
}

fn dump<'tcx>(tcx: TyCtxt<'tcx>) {
    let root = std::env::var("CBMIR_ROOT").unwrap_or_else(|_| "/repo".to_string());
    let cx = Cx { tcx, root, cur_body: std::cell::Cell::new(None) };
    let mut bodies = vec![];
    let mut keys: Vec<LocalDefId> = tcx.mir_keys(()).iter().copied().collect();
    keys.sort_by_key(|d| cx.path(d.to_def_id()));
    for did in keys {
        if let Some(b) = cx.body(did) {
            bodies.push(b);
        }
    }
    // statics / consts / thread locals
    let mut statics = vec![];
    for id in tcx.hir_crate_items(()).definitions() {
        let kind = tcx.def_kind(id);
        if let DefKind::Static { mutability, .. } = kind {
            let t = tcx.type_of(id).instantiate_identity().skip_norm_wip();
            statics.push(obj(vec![
                ("path", esc(&cx.path(id.to_def_id()))),
                ("ty", esc(&cx.ty_str(t))),
                ("flags", cx.ty_flags(t)),
                ("mutable", format!("{}", matches!(mutability, rustc_hir::Mutability::Mut))),
                ("thread_local", format!("{}", tcx.is_thread_local_static(id.to_def_id()))),
                ("s", cx.span_json(tcx.def_span(id))),
            ]));
        }
    }
    // cfg census: features enabled for this crate
    let mut cfgs = vec![];
    for (name, val) in tcx.sess.config.iter() {
        if name.as_str() == "feature" {
            if let Some(v) = val {
                cfgs.push(esc(v.as_str()));
            }
        }
    }
    cfgs.sort();
    let doc = obj(vec![
        ("crate", esc(tcx.crate_name(LOCAL_CRATE).as_str())),
        ("rustc", esc(&format!("{}", rustc_interface::util::rustc_version_str().unwrap_or("?")))),
        ("features", arr(cfgs)),
        ("statics", arr(statics)),
        ("bodies", arr(bodies)),
    ]);
    let out = std::env::var("CBMIR_OUT").unwrap_or_else(|_| "cbmir-facts.json".to_string());
    let tmp = format!("{}.tmp.{}", out, std::process::id());
    std::fs::write(&tmp, doc).expect("write facts");
    std::fs::rename(&tmp, &out).expect("rename facts");
}

struct Cb;

impl Callbacks for Cb {
    fn after_analysis<'tcx>(&mut self, _c: &rustc_interface::interface::Compiler, tcx: TyCtxt<'tcx>) -> Compilation {
        let want = std::env::var("CBMIR_CRATE").unwrap_or_else(|_| "callbag".to_string());
        if tcx.crate_name(LOCAL_CRATE).as_str() == want {
            dump(tcx);
        }
        Compilation::Continue
    }
}

fn main() {
    let mut args: Vec<String> = std::env::args().collect();
    // RUSTC_WORKSPACE_WRAPPER: argv = [wrapper, rustc, args...]
    if args.len() > 1 && (args[1].ends_with("rustc") || args[1].contains("/rustc")) {
        args.remove(1);
    }
    rustc_driver::run_compiler(&args, &mut Cb);
}
