#!/bin/bash
# Build the framework from files on disk only (offline): the MIR extractor, and a warm dependency cache for both
# feature configurations of /repo.  Idempotent.
set -euo pipefail
HERE="$(cd "$(dirname "$0")" && pwd)"
export CARGO_NET_OFFLINE=true
cd "$HERE/engines/cbmir"
cargo +nightly build --release --offline 2>&1 | tail -3
mkdir -p "$HERE/.work"
# type-check /repo's dependencies once per configuration (the extraction of the crate itself is repeated by every check)
for cfg in default tracing; do
  "$HERE/engines/extract.sh" "$cfg" "$HERE/.work/setup-$cfg.json" /repo
  rm -f "$HERE/.work/setup-$cfg.json" "$HERE/.work/setup-$cfg.json.log"
done
echo "setup ok"
