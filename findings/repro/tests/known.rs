//! Histories that demonstrate recorded (not repaired) findings against the real crate. These tests ASSERT THE DEFECT:
//! they pass while the finding is present. Documentation only; no registered check runs them.
use callbag::{flatten, Source};
use repro::*;
use std::sync::Arc;

/// KF-10 (C02, C11): a first inner source that greets late is invisible to flatten's completion test.
#[test]
fn kf10_flatten_completes_while_a_late_greeting_inner_is_pending() {
    let log = new_log();
    let outer = Puppet::<Source<u32>>::new("outer", &log, true);
    let inner = Puppet::<u32>::new("i", &log, false); // greets only on command
    let out: Arc<Source<u32>> = Arc::new(flatten(outer.source()));
    let s = Probe::<u32>::new("sink", &log);
    subscribe(&out, s.sink());
    outer.data(inner.source()); // flatten subscribes the inner; it does not greet yet
    outer.end(); // the outer completes while the inner is pending
    let l = log_of(&log);
    assert!(l.contains(&"sink<-T".to_string()), "expected the early completion (finding KF-10): {l:?}");
    // the inner is still subscribed and conformant: it now greets and delivers
    inner.greet();
    inner.data(1);
    let l = log_of(&log);
    let t = l.iter().position(|x| x == "sink<-T").unwrap();
    assert!(l[t..].iter().any(|x| x == "sink<-D1"), "expected data after the Terminate (finding KF-10): {l:?}");
}
