//! Histories that demonstrate recorded (not repaired) findings against the real crate. These tests ASSERT THE DEFECT:
//! they pass while the finding is present. Documentation only; no registered check runs them.
use callbag::{flatten, Source};
use repro::*;
use std::sync::Arc;

/// KF-10 (C02, C11): a first inner source that greets late is invisible to flatten's completion test.
#[test]
fn kf10_flatten_completes_while_a_late_greeting_inner_is_pending() {
    let log = new_log();
    let outer = Puppet::<Source<u32>>::new("outer", &log, true);
    let inner = Puppet::<u32>::new("i", &log, false); // greets only on command
    let out: Arc<Source<u32>> = Arc::new(flatten(outer.source()));
    let s = Probe::<u32>::new("sink", &log);
    subscribe(&out, s.sink());
    outer.data(inner.source()); // flatten subscribes the inner; it does not greet yet
    outer.end(); // the outer completes while the inner is pending
    let l = log_of(&log);
    assert!(l.contains(&"sink<-T".to_string()), "expected the early completion (finding KF-10): {l:?}");
    // the inner is still subscribed and conformant: it now greets and delivers
    inner.greet();
    inner.data(1);
    let l = log_of(&log);
    let t = l.iter().position(|x| x == "sink<-T").unwrap();
    assert!(l[t..].iter().any(|x| x == "sink<-D1"), "expected data after the Terminate (finding KF-10): {l:?}");
}

/// KF-10 under C05: the pending first inner fails after the premature completion: its Error reaches a sink that was already
/// told Terminate (the failure is in effect turned into a normal completion).
#[test]
fn kf10_flatten_error_of_the_pending_inner_arrives_after_the_completion() {
    let log = new_log();
    let outer = Puppet::<Source<u32>>::new("outer", &log, true);
    let inner = Puppet::<u32>::new("i", &log, false);
    let out: Arc<Source<u32>> = Arc::new(flatten(outer.source()));
    let s = Probe::<u32>::new("sink", &log);
    subscribe(&out, s.sink());
    outer.data(inner.source());
    outer.end();
    inner.greet();
    inner.error();
    let l = log_of(&log);
    let t = l.iter().position(|x| x == "sink<-T").expect("early completion (finding KF-10)");
    let e = l.iter().position(|x| x == "sink<-E");
    assert!(e.map_or(true, |e| e > t), "the error is not delivered before the completion (finding KF-10 / C05): {l:?}");
}

/// KF-10 under C04: the output is over while the late-greeting inner is still subscribed; nobody disposes it, and
/// when it ends by itself flatten pulls the outer source, which ended long ago.
#[test]
fn kf10_flatten_pulls_the_ended_outer_when_the_pending_inner_ends() {
    let log = new_log();
    let outer = Puppet::<Source<u32>>::new("outer", &log, true);
    let inner = Puppet::<u32>::new("i", &log, false);
    let out: Arc<Source<u32>> = Arc::new(flatten(outer.source()));
    let s = Probe::<u32>::new("sink", &log);
    subscribe(&out, s.sink());
    outer.data(inner.source());
    outer.end();
    inner.greet();
    let before = log_of(&log).len();
    inner.end();
    let l = log_of(&log);
    assert!(l.iter().any(|x| x == "sink<-T"), "early completion (finding KF-10): {l:?}");
    assert!(!l.iter().any(|x| x == "i<-T"), "the inner that outlived the output is never disposed: {l:?}");
    assert!(l[before..].iter().any(|x| x == "outer<-P"), "the ended outer is pulled (finding KF-10 / C04): {l:?}");
}

use callbag::{combine, concat, share, Message};

fn has(l: &[String], x: &str) -> bool {
    l.iter().any(|y| y == x)
}

/// KF-1 (C05): combine counts a member's Error as a completion: the sink never hears the error.
#[test]
fn kf1_combine_swallows_a_member_error() {
    let log = new_log();
    let a = Puppet::<u32>::new("a", &log, true);
    let b = Puppet::<u32>::new("b", &log, true);
    let out: Arc<Source<(u32, u32)>> = Arc::new(combine!(a.source(), b.source()));
    let s = Probe::<(u32, u32)>::new("sink", &log);
    subscribe(&out, s.sink());
    a.error();
    let l = log_of(&log);
    assert!(!has(&l, "sink<-E"), "finding KF-1 gone? {l:?}");
    assert!(!has(&l, "b<-T"), "finding KF-1 gone (sibling disposed)? {l:?}");
    b.end();
    assert!(has(&log_of(&log), "sink<-T"), "the output completes normally after the swallowed error");
}

/// KF-2 (C04): combine never clears a member's talkback: an ended member is terminated again at disposal.
#[test]
fn kf2_combine_terminates_an_ended_member() {
    let log = new_log();
    let a = Puppet::<u32>::new("a", &log, true);
    let b = Puppet::<u32>::new("b", &log, true);
    let out: Arc<Source<(u32, u32)>> = Arc::new(combine!(a.source(), b.source()));
    let s = Probe::<(u32, u32)>::new("sink", &log);
    subscribe(&out, s.sink());
    a.end();
    s.terminate();
    let l = log_of(&log);
    assert!(has(&l, "a<-T") && has(&l, "b<-T"), "finding KF-2 gone? {l:?}");
}

/// KF-3 (C04): concat keeps the ended member's talkback until the next (late-greeting) member greets.
#[test]
fn kf3_concat_disposal_in_the_boundary_window_hits_the_dead_member() {
    let log = new_log();
    let a = Puppet::<u32>::new("a", &log, true);
    let b = Puppet::<u32>::new("b", &log, false);
    let out: Arc<Source<u32>> = Arc::new(concat!(a.source(), b.source()));
    let s = Probe::<u32>::new("sink", &log);
    subscribe(&out, s.sink());
    a.end(); // b is subscribed, has not greeted yet
    s.terminate();
    let l = log_of(&log);
    assert!(has(&l, "b<-subscribe") && has(&l, "a<-T") && !has(&l, "b<-T"), "finding KF-3 gone? {l:?}");
}

/// KF-4 (C04, C11): after a switch flatten's inner cell holds the disposed inner until the new inner greets.
#[test]
fn kf4_flatten_disposal_in_the_switch_window_hits_the_disposed_inner() {
    let log = new_log();
    let outer = Puppet::<Source<u32>>::new("outer", &log, true);
    let i1 = Puppet::<u32>::new("i1", &log, true);
    let i2 = Puppet::<u32>::new("i2", &log, false);
    let out: Arc<Source<u32>> = Arc::new(flatten(outer.source()));
    let s = Probe::<u32>::new("sink", &log);
    subscribe(&out, s.sink());
    outer.data(i1.source());
    outer.data(i2.source()); // i1 is disposed, i2 subscribed but silent
    s.terminate();
    let l = log_of(&log);
    let n = l.iter().filter(|x| *x == "i1<-T").count();
    assert!(n == 2 && !has(&l, "i2<-T"), "finding KF-4 gone? {l:?}");
}

/// KF-5 (C02, C03): share fans out over a snapshot of the sink list.
#[test]
fn kf5_share_delivers_to_a_sink_detached_during_the_fan_out() {
    let log = new_log();
    let up = Puppet::<u32>::new("a", &log, true);
    let out: Arc<Source<u32>> = Arc::new(share(up.source()));
    let a = Probe::<u32>::new("A", &log);
    let b = Probe::<u32>::new("B", &log);
    subscribe(&out, a.sink());
    subscribe(&out, b.sink());
    {
        let b = Arc::clone(&b);
        *a.on_data.lock().unwrap() = Some(Box::new(move |_| b.terminate()));
    }
    up.data(1);
    let l = log_of(&log);
    assert!(has(&l, "B<-D1"), "finding KF-5 gone? {l:?}");
}

/// KF-6 (C17): with a late-greeting upstream, a later sink is greeted with a talkback that panics.
#[test]
fn kf6_share_later_sink_pull_before_upstream_greeting_panics() {
    let log = new_log();
    let up = Puppet::<u32>::new("a", &log, false);
    let out: Arc<Source<u32>> = Arc::new(share(up.source()));
    let a = Probe::<u32>::new("A", &log);
    let b = Probe::<u32>::new("B", &log);
    subscribe(&out, a.sink()); // upstream subscribed, silent
    subscribe(&out, b.sink()); // B is greeted directly
    assert!(has(&log_of(&log), "B<-H"));
    std::panic::set_hook(Box::new(|_| {}));
    let r = std::panic::catch_unwind(std::panic::AssertUnwindSafe(|| b.pull()));
    let _ = std::panic::take_hook();
    assert!(r.is_err(), "finding KF-6 gone?");
}

/// KF-8 (C04): share does not clear source_talkback when the upstream ends.
#[test]
fn kf8_share_pull_reaches_the_ended_first_subscription() {
    let log = new_log();
    let up = Puppet::<u32>::new("a", &log, true);
    let out: Arc<Source<u32>> = Arc::new(share(up.source()));
    let a = Probe::<u32>::new("A", &log);
    subscribe(&out, a.sink());
    up.end(); // first upstream subscription is over
    up.set_greet_sync(false);
    let b = Probe::<u32>::new("B", &log);
    subscribe(&out, b.sink()); // second upstream subscription, not greeted yet
    let c = Probe::<u32>::new("C", &log);
    subscribe(&out, c.sink()); // greeted directly
    c.pull();
    let l = log_of(&log);
    assert!(has(&l, "a<-subscribe#2") && has(&l, "C<-H") && has(&l, "a<-P"), "finding KF-8 gone? {l:?}");
}

/// KF-9 (C12): the sink list is cleared only after the terminal fan-out.
#[test]
fn kf9_share_reattach_inside_the_terminal_delivery_is_wiped() {
    let log = new_log();
    let up = Puppet::<u32>::new("a", &log, true);
    let out: Arc<Source<u32>> = Arc::new(share(up.source()));
    let a = Probe::<u32>::new("A", &log);
    let n = Probe::<u32>::new("N", &log);
    subscribe(&out, a.sink());
    {
        let out = Arc::clone(&out);
        let n = Arc::clone(&n);
        *a.on_terminate.lock().unwrap() = Some(Box::new(move |_| subscribe(&out, n.sink())));
    }
    up.end();
    let l = log_of(&log);
    assert!(has(&l, "N<-H") && !has(&l, "a<-subscribe#2"), "finding KF-9 gone? {l:?}");
    let _ = Message::<u8, u8>::Pull;
}
