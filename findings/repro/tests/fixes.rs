//! Histories that fail on the pinned tree and pass after the `fix:` commits (FIX-1 .. FIX-4).
use callbag::{merge, take, Message, Sink, Source};
use repro::*;
use std::sync::atomic::{AtomicUsize, Ordering};
use std::sync::{Arc, Barrier};

/// FIX-1 (C19): two threads deliver into take(1) at the same moment.
#[test]
fn fix1_take_never_over_delivers() {
    let mut over = 0;
    let rounds = 200_000;
    for _ in 0..rounds {
        let log = new_log();
        let up = Puppet::<u32>::new("a", &log, true);
        let out: Arc<Source<u32>> = Arc::new(take(1)(up.source()));
        let got = Arc::new(AtomicUsize::new(0));
        let sink: Sink<u32> = {
            let got = Arc::clone(&got);
            (move |m: Message<u32, never::Never>| {
                if let Message::Data(_) = m {
                    got.fetch_add(1, Ordering::SeqCst);
                }
            })
            .into()
        };
        subscribe(&out, sink);
        let bar = Arc::new(Barrier::new(2));
        let hs: Vec<_> = (0..2)
            .map(|i| {
                let up = Arc::clone(&up);
                let bar = Arc::clone(&bar);
                std::thread::spawn(move || {
                    bar.wait();
                    up.data(i);
                })
            })
            .collect();
        for h in hs {
            h.join().unwrap();
        }
        if got.load(Ordering::SeqCst) > 1 {
            over += 1;
        }
    }
    assert_eq!(over, 0, "take(1) delivered 2 items in {over} of {rounds} rounds");
}

/// FIX-2 (C18): two members of combine! deliver their first datum at the same moment.
#[test]
fn fix2_combine_never_emits_incomplete_tuple() {
    let rounds = 200_000;
    let panics = Arc::new(AtomicUsize::new(0));
    std::panic::set_hook(Box::new(|_| {}));
    for _ in 0..rounds {
        let log = new_log();
        let a = Puppet::<u32>::new("a", &log, true);
        let b = Puppet::<u32>::new("b", &log, true);
        let out: Arc<Source<(u32, u32)>> = Arc::new(callbag::combine!(a.source(), b.source()));
        let sink: Sink<(u32, u32)> = (move |_m: Message<(u32, u32), never::Never>| {}).into();
        subscribe(&out, sink);
        let bar = Arc::new(Barrier::new(2));
        let hs: Vec<_> = [a, b]
            .into_iter()
            .map(|p| {
                let bar = Arc::clone(&bar);
                let panics = Arc::clone(&panics);
                std::thread::spawn(move || {
                    bar.wait();
                    if std::panic::catch_unwind(std::panic::AssertUnwindSafe(|| p.data(1))).is_err() {
                        panics.fetch_add(1, Ordering::SeqCst);
                    }
                })
            })
            .collect();
        for h in hs {
            h.join().unwrap();
        }
    }
    let _ = std::panic::take_hook();
    let n = panics.load(Ordering::SeqCst);
    assert_eq!(n, 0, "combine! panicked (unwrap on an empty slot) in {n} of {rounds} rounds");
}

/// FIX-3 (C08): a member that greets after the output was disposed must be disposed at once.
#[test]
fn fix3_merge_disposes_late_greeter() {
    let log = new_log();
    let a = Puppet::<u32>::new("a", &log, true);
    let b = Puppet::<u32>::new("b", &log, false);
    let out: Arc<Source<u32>> = Arc::new(merge!(a.source(), b.source()));
    let s = Probe::<u32>::new("sink", &log);
    subscribe(&out, s.sink());
    s.terminate();
    b.greet();
    // b is conformant (A3): it delivers only if it has not been told to stop
    if !log_of(&log).contains(&"b<-T".to_string()) {
        b.data(7);
    }
    let l = log_of(&log);
    assert!(l.contains(&"b<-T".to_string()), "late member never told to stop: {l:?}");
    assert!(!l.iter().any(|x| x.starts_with("sink<-D")), "disposed sink received data: {l:?}");
}

/// FIX-4 (C04): a member answers a Pull with an Error; the remaining members must not be pulled afterwards.
#[test]
fn fix4_merge_stops_pulling_after_member_error() {
    let log = new_log();
    let a = Puppet::<u32>::new("a", &log, true);
    let b = Puppet::<u32>::new("b", &log, true);
    *a.on_pull.lock().unwrap() = Some(Box::new(|p| p.error()));
    let out: Arc<Source<u32>> = Arc::new(merge!(a.source(), b.source()));
    let s = Probe::<u32>::new("sink", &log);
    subscribe(&out, s.sink());
    s.pull();
    let l = log_of(&log);
    let t = l.iter().position(|x| x == "b<-T").expect("b disposed");
    assert!(!l[t..].iter().any(|x| x == "b<-P"), "b pulled after it was terminated: {l:?}");
}
