//! Puppet peers for reproducing protocol histories against the real callbag crate.
use callbag::{Message, Sink, Source};
use std::sync::{Arc, Mutex};

pub type Log = Arc<Mutex<Vec<String>>>;

pub fn new_log() -> Log {
    Arc::new(Mutex::new(vec![]))
}
pub fn log_of(log: &Log) -> Vec<String> {
    log.lock().unwrap().clone()
}

/// A source that records what it receives and acts only on command.
pub struct Puppet<T: 'static> {
    pub name: &'static str,
    pub log: Log,
    sinks: Arc<Mutex<Vec<Arc<Sink<T>>>>>,
    /// what to do when a Pull arrives: Some(f) is called synchronously
    pub on_pull: Arc<Mutex<Option<Box<dyn Fn(&Puppet<T>) + Send + Sync>>>>,
    pub greet_sync: std::sync::atomic::AtomicBool,
}

impl<T: Send + Sync + 'static> Puppet<T> {
    pub fn new(name: &'static str, log: &Log, greet_sync: bool) -> Arc<Self> {
        Arc::new(Puppet { name, log: Arc::clone(log), sinks: Default::default(), on_pull: Default::default(), greet_sync: std::sync::atomic::AtomicBool::new(greet_sync) })
    }
    pub fn source(self: &Arc<Self>) -> Source<T> {
        let me = Arc::clone(self);
        (move |message: Message<never::Never, T>| {
            if let Message::Handshake(sink) = message {
                let n = {
                    let mut s = me.sinks.lock().unwrap();
                    s.push(sink);
                    s.len()
                };
                me.log.lock().unwrap().push(if n == 1 { format!("{}<-subscribe", me.name) } else { format!("{}<-subscribe#{}", me.name, n) });
                if me.greet_sync.load(std::sync::atomic::Ordering::SeqCst) {
                    me.greet_nth(n - 1);
                }
            }
        })
        .into()
    }
    pub fn set_greet_sync(&self, v: bool) {
        self.greet_sync.store(v, std::sync::atomic::Ordering::SeqCst);
    }
    pub fn greet(self: &Arc<Self>) {
        let n = self.sinks.lock().unwrap().len();
        self.greet_nth(n - 1)
    }
    pub fn greet_nth(self: &Arc<Self>, k: usize) {
        let sink = Arc::clone(&self.sinks.lock().unwrap()[k]);
        let me = Arc::clone(self);
        let tag = if k == 0 { String::new() } else { format!("#{}", k + 1) };
        let tb: Source<T> = (move |message: Message<never::Never, T>| {
            let s = match message {
                Message::Handshake(_) => "H",
                Message::Data(_) => "D",
                Message::Pull => "P",
                Message::Error(_) => "E",
                Message::Terminate => "T",
            };
            me.log.lock().unwrap().push(format!("{}{}<-{}", me.name, tag, s));
            if s == "P" {
                let f = me.on_pull.lock().unwrap().take();
                if let Some(f) = f {
                    f(&me);
                    *me.on_pull.lock().unwrap() = Some(f);
                }
            }
        })
        .into();
        sink(Message::Handshake(Arc::new(tb)));
    }
    fn last(&self) -> Arc<Sink<T>> {
        Arc::clone(self.sinks.lock().unwrap().last().unwrap())
    }
    pub fn data(&self, x: T) {
        (self.last())(Message::Data(x));
    }
    pub fn end(&self) {
        (self.last())(Message::Terminate);
    }
    pub fn error(&self) {
        let e: Arc<dyn std::error::Error + Send + Sync> = Arc::new(std::fmt::Error);
        (self.last())(Message::Error(e));
    }
}

/// A sink that records what it receives; its talkback is kept so that the test can pull / dispose.
pub struct Probe<T: 'static> {
    pub name: &'static str,
    pub log: Log,
    pub talkback: Arc<Mutex<Option<Arc<Source<T>>>>>,
    pub on_data: Arc<Mutex<Option<Box<dyn Fn(&Probe<T>) + Send + Sync>>>>,
    pub on_handshake: Arc<Mutex<Option<Box<dyn Fn(&Probe<T>) + Send + Sync>>>>,
    pub on_terminate: Arc<Mutex<Option<Box<dyn Fn(&Probe<T>) + Send + Sync>>>>,
}

impl<T: std::fmt::Debug + Send + Sync + 'static> Probe<T> {
    pub fn new(name: &'static str, log: &Log) -> Arc<Self> {
        Arc::new(Probe { name, log: Arc::clone(log), talkback: Default::default(), on_data: Default::default(), on_handshake: Default::default(), on_terminate: Default::default() })
    }
    pub fn sink(self: &Arc<Self>) -> Sink<T> {
        let me = Arc::clone(self);
        (move |message: Message<T, never::Never>| match message {
            Message::Handshake(tb) => {
                *me.talkback.lock().unwrap() = Some(tb);
                me.log.lock().unwrap().push(format!("{}<-H", me.name));
                let f = me.on_handshake.lock().unwrap().take();
                if let Some(f) = f {
                    f(&me);
                }
            }
            Message::Data(d) => {
                me.log.lock().unwrap().push(format!("{}<-D{:?}", me.name, d));
                let f = me.on_data.lock().unwrap().take();
                if let Some(f) = f {
                    f(&me);
                    let mut g = me.on_data.lock().unwrap();
                    if g.is_none() {
                        *g = Some(f);
                    }
                }
            }
            Message::Pull => me.log.lock().unwrap().push(format!("{}<-P", me.name)),
            Message::Error(_) => me.log.lock().unwrap().push(format!("{}<-E", me.name)),
            Message::Terminate => {
                me.log.lock().unwrap().push(format!("{}<-T", me.name));
                let f = me.on_terminate.lock().unwrap().take();
                if let Some(f) = f {
                    f(&me);
                }
            }
        })
        .into()
    }
    pub fn tb(&self) -> Arc<Source<T>> {
        Arc::clone(self.talkback.lock().unwrap().as_ref().expect("not greeted"))
    }
    pub fn pull(&self) {
        (self.tb())(Message::Pull);
    }
    pub fn terminate(&self) {
        (self.tb())(Message::Terminate);
    }
}

pub fn subscribe<T: 'static>(source: &Arc<Source<T>>, sink: Sink<T>) {
    source(Message::Handshake(Arc::new(sink)));
}
